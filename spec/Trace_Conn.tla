---------------------------- MODULE Trace_Conn ----------------------------
(***************************************************************************)
(* Trace specification for connection-level traces recorded from the real  *)
(* HttpConnection over the scripted stream (harness: mh exec-conn).        *)
(*                                                                         *)
(* Open-loop oracle: the specification is driven by the logged INPUTS only *)
(* (bytes delivered by each receive, descriptors, write outcomes,          *)
(* serialized responses enqueued) through the very operators MC_Conn       *)
(* checks (TryRead, TryWrite, ...).  Its predictions are compared with the *)
(* logged OBSERVABLES on the projection named by the run's `cmp` list.     *)
(* A difference is printed as one MISMATCH line (JSON) and counted; the    *)
(* specification keeps following its own state, so one divergence does not *)
(* hide later ones.  Every line of the trace must be consumed (post-       *)
(* condition), otherwise the trace itself is malformed (tool error).       *)
(*                                                                         *)
(* Relational layer (C01): runs with the same non-zero `fam` are           *)
(* segmentations of one stream; the implementation's own observations      *)
(* (requests popped, first error) must be equal across the family.         *)
(***************************************************************************)
EXTENDS HttpGrammar, Json, IOUtils

Rec == ndJsonDeserialize(IOEnv.TRACE)

VARIABLES l,        \* next line of the trace
          c,        \* the specification's connection record
          run, cmp, \* current run id and its projection
          consumed, \* bytes received since the last parse error (for the Whole cross-check)
          souts,    \* the specification's outputs since the last parse error
          obs,      \* the IMPLEMENTATION's observations in this run: popped requests, first error
          famid, famref,
          armed,    \* C11 mode: comparisons start after the first parse error the implementation reports
          held,     \* C12 (relational): tags received and not yet seen on a delivered request, in arrival order
          nbad

vars == <<l, c, run, cmp, consumed, souts, obs, famid, famref, armed, held, nbad>>

NoObs == [reqs |-> <<>>, err |-> R_Ok]

Init == /\ l = 1 /\ c = InitConn(<<0>>) /\ run = 0 /\ cmp = {}
        /\ consumed = <<>> /\ souts = <<>> /\ obs = NoObs
        /\ famid = 0 /\ famref = NoObs /\ armed = TRUE /\ held = <<>> /\ nbad = 0

Ev(e) == l <= Len(Rec) /\ Rec[l].e = e /\ l' = l + 1

ToSet(s) == {s[i] : i \in 1..Len(s)}

Report(bads, detail) ==
    /\ nbad' = nbad + Cardinality(bads)
    /\ (bads # {} /\ nbad < 20) =>
          PrintT("MISMATCH " \o ToJson([l |-> l, run |-> run, fields |-> bads, detail |-> detail]))

-----------------------------------------------------------------------------
\* comparison of a logged request with a predicted one (custom entries as a set)
ReqEq(lg, sp) ==
    /\ lg.m = sp.m /\ lg.uri = sp.uri /\ lg.v = sp.v
    /\ lg.h.cl = sp.h.cl /\ lg.h.expect = sp.h.expect /\ lg.h.chunked = sp.h.chunked
    /\ lg.h.accept = sp.h.accept
    /\ Len(lg.h.custom) = Len(sp.h.custom) /\ ToSet(lg.h.custom) = ToSet(sp.h.custom)
    /\ lg.body = sp.body /\ lg.hasBody = sp.hasBody

ReqsEq(lg, sp) == Len(lg) = Len(sp) /\ \A i \in 1..Len(lg) : ReqEq(lg[i], sp[i])
FilesEq(lg, sp) == Len(lg) = Len(sp) /\ \A i \in 1..Len(lg) : lg[i].files = sp[i].files

\* The payload of the too-long-header error is the lossy UTF-8 rendering of the window;
\* it is predicted only when the window is valid UTF-8 (otherwise only the kind is compared).
ResEq(lg, sp) ==
    /\ lg.k = sp.k
    /\ IF sp.e.t = "H.SizeLimitExceeded" /\ ~IsUtf8(sp.e.a) THEN lg.e.t = sp.e.t ELSE lg.e = sp.e

StripFiles(rs) == [i \in 1..Len(rs) |-> [rs[i] EXCEPT !.files = <<>>]]

-----------------------------------------------------------------------------
TNew == /\ Ev("new")
        /\ Rec[l].buf = BUF
        /\ c' = InitConn(Rec[l].limit)
        /\ run' = Rec[l].run /\ cmp' = ToSet(Rec[l].cmp)
        /\ consumed' = <<>> /\ souts' = <<>> /\ obs' = NoObs
        /\ armed' = ~("c11" \in ToSet(Rec[l].cmp)) /\ held' = <<>>
        /\ UNCHANGED <<famid, famref, nbad>>

TRead ==
    /\ Ev("read")
    /\ LET ev == Rec[l]
           fits == Len(ev.bytes) >= 1 /\ Len(ev.bytes) <= BUF - Len(c.buf)
           r == CASE ev.kind = "data" /\ fits -> TryRead(c, ev.bytes, ev.fds)
                  [] ev.kind = "data" /\ ~fits -> [c |-> c, outs |-> <<>>, res |-> [k |-> "unpredictable", e |-> NoErr]]
                  [] ev.kind = "eof" -> TryReadEof(c, ev.fds)
                  [] OTHER -> TryReadErr(c)
           isErr == r.res.k = "ParseError"
           \* a caller that does not pop after this read (script option defer_pop): completed requests stay queued
           pops == IF "pop" \in DOMAIN ev THEN ev.pop ELSE TRUE
           cons2 == IF ev.kind = "data" THEN consumed \o ev.bytes ELSE consumed
           souts2 == souts \o r.outs
           w == IF isErr THEN Whole(cons2, c.limit) ELSE [outs |-> <<>>, err |-> NoErr]
           c11reset == "c11" \in cmp /\ ev.res.k = "ParseError"
           bads == {f \in (IF armed THEN cmp ELSE {}) :
                      \/ f = "res" /\ ~ResEq(ev.res, r.res)
                      \/ f = "popped" /\ pops /\ ~ReqsEq(ev.popped, r.c.parsed)
                      \/ f = "files" /\ pops /\ ~FilesEq(ev.popped, r.c.parsed)
                      \* C12, judged on the implementation's own completion events (no grammar involved):
                      \* the first request delivered by this read carries every tag received since the
                      \* last delivery, in arrival order; further requests of the same read carry none
                      \/ f = "files_rel" /\ Len(ev.popped) > 0
                            /\ ~(ev.popped[1].files = held \o ev.fds /\ \A i \in 2..Len(ev.popped) : ev.popped[i].files = <<>>)
                      \/ f = "recvs" /\ ~(ev.recvs = 1 /\ ev.writes = 0)
                      \/ f = "window" /\ ev.window # BUF - Len(c.buf)
                      \/ f = "pending" /\ ev.pending # PendingWrite(r.c)
                      \/ f = "nopanic" /\ ev.res.k = "panic"
                      \/ f = "whole" /\ isErr /\ ~(w.err = r.res.e /\ w.outs = NoFiles(souts2))}
       IN \* C11 mode follows the implementation's own error reports: whenever it says
          \* ParseError, the specification continues from a NEW connection (same limit)
          /\ c' = IF c11reset THEN [InitConn(c.limit) EXCEPT !.respQ = r.c.respQ, !.respBuf = r.c.respBuf]
                  ELSE IF pops THEN PopAll(r.c) ELSE r.c
          /\ armed' = (armed \/ c11reset)
          /\ held' = IF ev.res.k = "ParseError" \/ Len(ev.popped) > 0 THEN <<>> ELSE held \o ev.fds
          /\ consumed' = IF isErr \/ c11reset THEN <<>> ELSE cons2
          /\ souts' = IF isErr \/ c11reset THEN <<>> ELSE souts2
          /\ obs' = [reqs |-> obs.reqs \o StripFiles(ev.popped),
                     err |-> IF obs.err.k = "Ok" /\ ev.res.k \notin {"Ok", "StreamReadError"} THEN ev.res ELSE obs.err]
          /\ Report(bads, [exp |-> [res |-> r.res, popped |-> r.c.parsed, pending |-> PendingWrite(r.c)],
                           got |-> [res |-> ev.res, popped |-> ev.popped, pending |-> ev.pending, recvs |-> ev.recvs]])
    /\ UNCHANGED <<run, cmp, famid, famref>>

TEnq == /\ Ev("enq")
        /\ c' = Enqueue(c, Rec[l].ser)
        /\ Report({f \in cmp : f = "pending" /\ Rec[l].pending # TRUE}, [exp |-> TRUE, got |-> Rec[l].pending])
        /\ UNCHANGED <<run, cmp, consumed, souts, obs, famid, famref, armed, held>>

TWrite ==
    /\ Ev("write")
    /\ LET ev == Rec[l]
           \* the outcome the stream produced (logged input); clipped accepts are logged clipped
           o == IF ev.o.k = "accept" THEN [k |-> "accept", n |-> ev.o.n]
                ELSE IF ev.o.k = "eintr" THEN [k |-> "eintr", n |-> 0]
                ELSE IF ev.o.k = "zero" THEN [k |-> "zero", n |-> 0] ELSE [k |-> "error", n |-> 0]
           \* an accept of 0 bytes can only be logged when the stream was never called
           w == IF ev.calls = 0 /\ ~PendingWrite(c) THEN TryWrite(c, o)
                ELSE IF o.k = "accept" /\ (o.n < 1 \/ o.n > NextWriteLen(c))
                     THEN [c |-> c, res |-> [k |-> "unpredictable", e |-> NoErr], calls |-> 1, sent |-> <<>>]
                ELSE TryWrite(c, o)
           bads == {f \in (IF armed THEN cmp ELSE {}) :
                      \/ f = "wres" /\ ev.res # w.res
                      \/ f = "calls" /\ ~(ev.calls = w.calls /\ ev.recvs = 0)
                      \/ f = "sent" /\ ev.sent # w.sent
                      \/ f = "offered" /\ w.calls = 1 /\ ev.offered # NextWriteLen(c)
                      \/ f = "pending" /\ ev.pending # PendingWrite(w.c)
                      \/ f = "nopanic" /\ ev.res.k = "panic"}
       IN /\ c' = w.c
          /\ Report(bads, [exp |-> [res |-> w.res, calls |-> w.calls, sent |-> w.sent, pending |-> PendingWrite(w.c), offered |-> NextWriteLen(c)],
                           got |-> [res |-> ev.res, calls |-> ev.calls, sent |-> ev.sent, pending |-> ev.pending, offered |-> ev.offered]])
    /\ UNCHANGED <<run, cmp, consumed, souts, obs, famid, famref, armed, held>>

\* pop_parsed_request until empty by a caller that did not pop after every read (defer_pop).  The
\* descriptor rule is judged with the specification supplying only WHICH read completed WHICH request
\* (files_def: same number of requests, different descriptors); a different number of requests is a
\* matter of the grammar and belongs to "popped".
TPopAll ==
    /\ Ev("popall")
    /\ LET ev == Rec[l]
           bads == {f \in cmp :
                      \/ f = "popped" /\ ~ReqsEq(ev.popped, c.parsed)
                      \/ f = "files_def" /\ Len(ev.popped) = Len(c.parsed) /\ ~FilesEq(ev.popped, c.parsed)}
       IN /\ c' = PopAll(c)
          /\ obs' = [obs EXCEPT !.reqs = @ \o StripFiles(ev.popped)]
          /\ Report(bads, [exp |-> c.parsed, got |-> ev.popped])
    /\ UNCHANGED <<run, cmp, consumed, souts, famid, famref, armed, held>>

\* set_payload_max_size on a live connection: the new limit applies to every header block completed from
\* now on (the machine reads c.limit when the blank line is parsed)
TSetLimit == /\ Ev("setlimit")
             /\ c' = [c EXCEPT !.limit = Rec[l].limit]
             /\ UNCHANGED <<run, cmp, consumed, souts, obs, famid, famref, armed, held, nbad>>

\* clear_write_buffer: everything pending is discarded, nothing is written
TClear == /\ Ev("clear")
          /\ c' = ClearWrite(c)
          /\ Report({f \in cmp : f = "pending" /\ Rec[l].pending # FALSE}, [exp |-> FALSE, got |-> Rec[l].pending])
          /\ UNCHANGED <<run, cmp, consumed, souts, obs, famid, famref, armed, held>>

TEnd ==
    /\ Ev("end")
    /\ LET ev == Rec[l]
           w == Whole(consumed, c.limit)
           newfam == ev.fam # 0 /\ ev.fam # famid
           bads == {f \in cmp \cup {"family", "leak", "harness"} :
                      \/ f = "whole" /\ ~ev.aborted /\ ~(w.err = NoErr /\ w.outs = NoFiles(souts))
                      \/ f = "family" /\ ev.fam # 0 /\ ~newfam /\ obs # famref
                      \/ f = "leak" /\ "fdleak" \in cmp /\ ev.fd_delta # 0
                      \/ f = "nopanic" /\ ev.aborted
                      \/ f = "harness" /\ ev.unscripted # 0}
       IN /\ famid' = IF newfam THEN ev.fam ELSE famid
          /\ famref' = IF newfam THEN obs ELSE famref
          /\ Report(bads, [exp |-> [fam |-> famref, whole |-> w], got |-> [fam |-> obs, souts |-> NoFiles(souts), fd_delta |-> ev.fd_delta]])
    /\ UNCHANGED <<c, run, cmp, consumed, souts, obs, armed, held>>

\* C11, relational: the connection that has reported a parse error and a NEW connection (same limit) were
\* fed the same input from then on; everything observable must be the same (requests with their
\* descriptors, results, interim/other output written, pending flag).  No grammar is involved.
SameReqs(a, b) == Len(a) = Len(b) /\ \A i \in 1..Len(a) : ReqEq(a[i], b[i]) /\ a[i].files = b[i].files
TC11 == /\ Ev("c11cmp")
        /\ LET m == Rec[l].main  f == Rec[l].fresh
               same == m.res = f.res /\ SameReqs(m.popped, f.popped) /\ m.drained = f.drained /\ m.pending = f.pending
           IN Report(IF same THEN {} ELSE {"c11rel"}, [main |-> m, fresh |-> f])
        /\ UNCHANGED <<c, run, cmp, consumed, souts, obs, famid, famref, armed, held>>

\* C11, relational, output: everything the connection had written when it reported the error is what a
\* reference connection writes that was fed the same chunks cut off where the rejected request starts
TC11Out == /\ Ev("c11out")
           /\ Report(IF Rec[l].main = Rec[l].ref THEN {} ELSE {"c11rel"}, [main |-> Rec[l].main, ref |-> Rec[l].ref])
           /\ UNCHANGED <<c, run, cmp, consumed, souts, obs, famid, famref, armed, held>>

Next == TC11Out \/ TNew \/ TRead \/ TEnq \/ TWrite \/ TClear \/ TSetLimit \/ TPopAll \/ TEnd \/ TC11
Spec == Init /\ [][Next]_vars

\* every state of every validated trace satisfies the structural invariant of the machine
StructOK == CursorOK(c)

Accepted ==
    LET d == TLCGet("stats").diameter IN
    IF d - 1 = Len(Rec) THEN PrintT("TRACE_CONSUMED " \o ToString(Len(Rec)))
    ELSE PrintT("TRACE_STUCK at line " \o ToString(d) \o " of " \o ToString(Len(Rec))) /\ FALSE

=============================================================================
