------------------------------ MODULE Trace_Fn ------------------------------
(***************************************************************************)
(* Trace specification for function-level cases (harness: mh exec-fn):     *)
(* every public parsing entry point, the response builder, the router and  *)
(* the pair (one-shot parser, connection).  Each line is one call with its *)
(* inputs and outputs; the specification recomputes the outputs from the   *)
(* inputs with the operators of HttpLex / HttpResp / OneShot / Router /    *)
(* HttpGrammar and prints one MISMATCH line per difference.  For C14 the   *)
(* relation between the two REAL parsers is judged on their logged results *)
(* (relational), in addition to each being compared with its operator.     *)
(***************************************************************************)
EXTENDS OneShot, Router, Json, IOUtils

Rec == ndJsonDeserialize(IOEnv.TRACE)

VARIABLES l, nbad
vars == <<l, nbad>>
Init == l = 1 /\ nbad = 0

Report(bads, detail) ==
    /\ nbad' = nbad + Cardinality(bads)
    /\ (bads # {} /\ nbad < 20) =>
          PrintT("MISMATCH " \o ToJson([l |-> l, id |-> Rec[l].id, e |-> Rec[l].e, fields |-> bads, detail |-> detail]))

ToSet(s) == {s[i] : i \in 1..Len(s)}
HeadersEq(lg, sp) ==
    /\ lg.cl = sp.cl /\ lg.expect = sp.expect /\ lg.chunked = sp.chunked /\ lg.accept = sp.accept
    /\ Len(lg.custom) = Len(sp.custom) /\ ToSet(lg.custom) = ToSet(sp.custom)
ReqEq(lg, sp) ==
    /\ lg.m = sp.m /\ lg.uri = sp.uri /\ lg.v = sp.v /\ HeadersEq(lg.h, sp.h)
    /\ lg.body = sp.body /\ lg.hasBody = sp.hasBody

\* apply the logged builder calls to the specification's builder
ApplyOp(r, op) ==
    CASE op.op = "body" -> SetBody(r, op.bytes)
      [] op.op = "ctype" -> SetContentType(r, op.m)
      [] op.op = "depr" -> SetDeprecation(r)
      [] op.op = "enc" -> SetEncoding(r)
      [] op.op = "server" -> SetServer(r, op.s)
      [] op.op = "allow" -> SetAllow(r, op.ms)
      [] op.op = "allow1" -> AllowMethod(r, op.m)
      [] op.op = "cl" -> SetContentLength(r, op.has, op.n)
RECURSIVE ApplyOps(_, _)
ApplyOps(r, ops) == IF ops = <<>> THEN r ELSE ApplyOps(ApplyOp(r, Head(ops)), Tail(ops))

\* the independent reader recovers the response from its bytes followed by anything (C05)
Trailer == <<72, 84, 84, 80, 47, 49, 46, 49, 32, 50, 48, 48, 32, 13, 10>>     \* "HTTP/1.1 200 \r\n"
SelfDelimits(r, ser) ==
    LET rd == ReadOne(ser \o Trailer, 1)
        bodyLen == IF r.hasCl /\ r.cl >= 0 THEN r.cl ELSE 0
    IN r.hasCl /\ r.cl = Len(IF r.hasBody THEN r.body ELSE <<>>)
         => (rd.ok /\ rd.code = r.code /\ rd.v = r.v /\ rd.body = (IF r.hasBody THEN r.body ELSE <<>>)
             /\ rd.next = Len(ser) + 1)

Case ==
    LET ev == Rec[l]  o == ev.out IN
    IF ev.panic THEN {"panic"}
    ELSE
    CASE ev.e = "hline" ->
            LET f == FoldLines(DefaultHeaders, ev.lines, <<>>) IN
            {x \in {"results", "headers"} :
                \/ x = "results" /\ o.results # f.results
                \/ x = "headers" /\ ~HeadersEq(o.h, f.h)}
      [] ev.e = "hblock" ->
            LET b == ParseHeaderBlock(ev.bytes) IN
            {x \in {"ok", "headers", "err"} :
                \/ x = "ok" /\ o.ok # b.ok
                \/ x = "headers" /\ ~HeadersEq(o.h, b.h)
                \/ x = "err" /\ o.err # b.err}
      [] ev.e = "enc" ->
            LET c == IF ~IsUtf8(ev.bytes) /\ Len(ev.bytes) > 0
                     THEN LET u == Utf8Check(ev.bytes) IN [ok |-> FALSE, err |-> E_HUtf8(u.upto, u.elen)]
                     ELSE EncodingCheck(ev.bytes)
                want == IF c.ok THEN [k |-> "ok", e |-> NoErr] ELSE [k |-> "fatal", e |-> c.err]
            IN IF o.res = want THEN {} ELSE {"res"}
      [] ev.e = "media" ->
            LET m == ParseMediaType(ev.bytes) IN
            {x \in {"res", "raw"} : \/ x = "res" /\ o.res # m
                                    \/ x = "raw" /\ m # "bad" /\ o.raw # MediaRaw(m)}
      [] ev.e = "method" ->
            LET m == ParseMethod(ev.bytes) IN
            {x \in {"res", "raw"} : \/ x = "res" /\ o.res # m
                                    \/ x = "raw" /\ m # "bad" /\ ~(o.raw = MethodRaw(m) /\ o.str = MethodRaw(m) /\ o.raw = ev.bytes)}
      [] ev.e = "version" ->
            LET v == ParseVersion(ev.bytes) IN
            {x \in {"res", "raw"} : \/ x = "res" /\ o.res # v
                                    \/ x = "raw" /\ v # "bad" /\ ~(o.raw = VersionRaw(v) /\ o.raw = ev.bytes)}
      [] ev.e = "status" -> IF o.raw = IntAscii(ev.code) /\ Len(o.raw) = 3 THEN {} ELSE {"raw"}
      [] ev.e = "abspath" ->
            LET okExp == Len(ev.uri) > 0 /\ IsUtf8(ev.uri) IN
            {x \in {"ok", "path"} : \/ x = "ok" /\ o.ok # okExp
                                    \/ x = "path" /\ okExp /\ o.ok /\ o.path # AbsPath(ev.uri)}
      [] ev.e = "oneshot" ->
            LET os == OneShotParse(ev.bytes, ev.max >= 0, IF ev.max >= 0 THEN ev.max ELSE 0)
                w == Whole(ev.bytes, ev.limit)
                \* the two REAL parsers, as logged
                los == [ok |-> o.one.ok, r |-> o.one.r]
                lw == [outs |-> [i \in 1..Len(o.conn.popped) |-> [k |-> "req", r |-> o.conn.popped[i]]],
                       err |-> o.conn.res.e]
            IN {x \in {"one_ok", "one_req", "one_err", "conn", "agree_fwd", "agree_bwd"} :
                  \/ x = "one_ok" /\ o.one.ok # os.ok
                  \/ x = "one_req" /\ os.ok /\ o.one.ok /\ ~ReqEq(o.one.r, os.r)
                  \/ x = "one_err" /\ ~os.ok /\ ~o.one.ok /\ o.one.e # os.e
                  \/ x = "conn" /\ ~(Len(o.conn.popped) = Len(FirstReq(w.outs))
                                     /\ \A i \in 1..Len(o.conn.popped) : ReqEq(o.conn.popped[i], FirstReq(w.outs)[i].r))
                  \/ x = "agree_fwd" /\ los.ok /\ ~(Len(lw.outs) >= 1 /\ ReqEq(lw.outs[1].r, los.r))
                                     /\ \* only within the line limits and the payload limit
                                        w.err.t \notin {"H.SizeLimitExceeded", "SizeLimitExceeded"}
                                        /\ ~(w.err.t = "InvalidRequest" /\ Len(FirstReq(w.outs)) = 0 /\ os.ok)
                  \/ x = "agree_bwd" /\ (Len(lw.outs) = 1 /\ lw.err = NoErr /\ o.conn.clean
                                         /\ ~(lw.outs[1].r.m = "GET" /\ lw.outs[1].r.hasBody)
                                         /\ ~(ev.max >= 0 /\ Len(ev.bytes) >= ev.max))
                                     /\ ~(los.ok /\ ReqEq(lw.outs[1].r, los.r))}
      [] ev.e = "resp" ->
            LET r == ApplyOps(NewResp(ev.resp.v, ev.resp.code), ev.resp.ops)
                ser == SerializeResp(r)
            IN {x \in {"bytes", "split", "accessors", "selfdelimiting"} :
                  \/ x = "bytes" /\ o.whole # ser
                  \/ x = "split" /\ ~(o.wrote_ok /\ o.bytes = o.whole)
                  \/ x = "accessors" /\ ~(o.cl = (IF r.hasCl THEN r.cl ELSE 0) /\ o.ctype = r.ctype /\ o.depr = r.depr
                                          /\ o.v = r.v /\ o.body = (IF r.hasBody THEN r.body ELSE <<>>)
                                          /\ o.allow = r.allow /\ o.status = r.code)
                  \/ x = "selfdelimiting" /\ ~SelfDelimits(r, o.whole)}
      [] ev.e = "router" ->
            LET rts == ev.routes
                added == [i \in 1..Len(rts) |-> Added(ev.prefix, rts, i)]
                Exp(i) == Dispatch(ev.server_id, ev.prefix, rts, ev.requests[i].m, ev.requests[i].uri)
                parsedExp(i) == Len(ev.requests[i].uri) > 0 /\ IsUtf8(ev.requests[i].uri)
            IN {x \in {"added", "invoked", "response"} :
                  \/ x = "added" /\ o.added # added
                  \/ x = "invoked" /\ \E i \in 1..Len(ev.requests) : parsedExp(i) /\ o.calls[i].parsed /\ o.calls[i].invoked # Exp(i).invoked
                  \/ x = "response" /\ \E i \in 1..Len(ev.requests) : parsedExp(i) /\ o.calls[i].parsed /\ o.calls[i].ser # Exp(i).ser}
      [] OTHER -> {"unknown-event"}

TCase == /\ l <= Len(Rec) /\ l' = l + 1
         /\ LET b == Case IN Report(b, [out |-> Rec[l].out])

Next == TCase
Spec == Init /\ [][Next]_vars
StructOK == TRUE

Accepted ==
    LET d == TLCGet("stats").diameter IN
    IF d - 1 = Len(Rec) THEN PrintT("TRACE_CONSUMED " \o ToString(Len(Rec)))
    ELSE PrintT("TRACE_STUCK at line " \o ToString(d) \o " of " \o ToString(Len(Rec))) /\ FALSE

=============================================================================
