SPECIFICATION Spec
CONSTANTS
  BUF = 1024
INVARIANT StructOK
POSTCONDITION Accepted
CHECK_DEADLOCK FALSE
