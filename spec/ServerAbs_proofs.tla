------------------------- MODULE ServerAbs_proofs -------------------------
(***************************************************************************)
(* TLAPS proof that Inv is an inductive invariant of ServerAbs, for any    *)
(* sets of descriptor numbers and clients and any capacity.                *)
(*   tlapm --threads 8 ServerAbs_proofs.tla                                *)
(***************************************************************************)
EXTENDS ServerAbs, TLAPS, FiniteSetTheorems

LEMMA OpenFinite == IsFiniteSet(Open) /\ IsFiniteSet(Open')
  BY ConstAssump, FS_Subset DEF Open

LEMMA EmptyCard == Cardinality({}) = 0
  BY FS_EmptySet

THEOREM InitInv == Init => Inv
  <1> SUFFICES ASSUME Init PROVE Inv OBVIOUS
  <1>1. TypeOK BY DEF Init, TypeOK
  <1>2. TokenOK BY DEF Init, TokenOK
  <1>3. CountOK BY DEF Init, CountOK
  <1>4. Open = {} BY DEF Init, Open
  <1>5. CapOK BY <1>4, EmptyCard, ConstAssump DEF CapOK
  <1> QED BY <1>1, <1>2, <1>3, <1>5 DEF Inv

THEOREM NextInv == Inv /\ [Next]_vars => Inv'
  <1> SUFFICES ASSUME Inv, [Next]_vars PROVE Inv' OBVIOUS
  <1> USE DEF Inv, TypeOK
  <1>1. ASSUME NEW f \in FD, NEW c \in CL, Accept(f, c) PROVE Inv'
    <2>1. TypeOK' BY <1>1 DEF Accept
    <2>2. TokenOK' BY <1>1 DEF Accept, TokenOK
    <2>3. CountOK' BY <1>1 DEF Accept, TokenOK, CountOK
    <2>4. Open' = Open \cup {f} /\ f \notin Open BY <1>1 DEF Accept, Open
    <2>5. Cardinality(Open') = Cardinality(Open) + 1 BY <2>4, OpenFinite, FS_AddElement
    <2>6. CapOK' BY <2>5, <1>1, OpenFinite, FS_CardinalityType, ConstAssump DEF Accept, CapOK
    <2> QED BY <2>1, <2>2, <2>3, <2>6
  <1>2. ASSUME NEW f \in FD, NEW c \in CL, Respond(f, c) PROVE Inv'
    <2>0. st[f] # "none" /\ peer[f] = c /\ infl[f] >= tok[f][c] /\ tok[f][c] > 0
      BY <1>2 DEF Respond, TokenOK, CountOK
    <2>1. TypeOK' BY <1>2, <2>0 DEF Respond
    <2>2. TokenOK' BY <1>2, <2>0 DEF Respond, TokenOK
    <2>3. CountOK' BY <1>2, <2>0 DEF Respond, TokenOK, CountOK
    <2>4. Open' = Open BY <1>2 DEF Respond, Open
    <2>5. CapOK' BY <2>4 DEF CapOK
    <2> QED BY <2>1, <2>2, <2>3, <2>5
  <1>3. ASSUME NEW f \in FD, Yield(f) PROVE Inv'
    <2>1. TypeOK' BY <1>3 DEF Yield
    <2>2. TokenOK' BY <1>3 DEF Yield, TokenOK
    <2>3. CountOK' BY <1>3 DEF Yield, TokenOK, CountOK
    <2>4. Open' = Open BY <1>3 DEF Yield, Open
    <2>5. CapOK' BY <2>4 DEF CapOK
    <2> QED BY <2>1, <2>2, <2>3, <2>5
  <1>4. ASSUME NEW R \in SUBSET FD, Hup(R) PROVE Inv'
    <2>1. TypeOK' BY <1>4 DEF Hup
    <2>2. TokenOK' BY <1>4 DEF Hup, TokenOK
    <2>3. CountOK' BY <1>4 DEF Hup, TokenOK, CountOK
    <2>4. Open' = Open BY <1>4 DEF Hup, Open
    <2>5. CapOK' BY <2>4 DEF CapOK
    <2> QED BY <2>1, <2>2, <2>3, <2>5
  <1>5. ASSUME NEW R \in SUBSET FD, Sweep(R) PROVE Inv'
    <2>1. TypeOK' BY <1>5 DEF Sweep
    <2>2. TokenOK' BY <1>5 DEF Sweep, TokenOK, CountOK
    <2>3. CountOK' BY <1>5 DEF Sweep, TokenOK, CountOK
    <2>4. Open' \subseteq Open BY <1>5 DEF Sweep, Open
    <2>5. Cardinality(Open') <= Cardinality(Open) BY <2>4, OpenFinite, FS_Subset
    <2>6. CapOK' BY <2>5, OpenFinite, FS_CardinalityType, ConstAssump DEF CapOK
    <2> QED BY <2>1, <2>2, <2>3, <2>6
  <1>6. ASSUME Lose PROVE Inv'
    <2>1. TypeOK' BY <1>6 DEF Lose
    <2>2. TokenOK' BY <1>6 DEF Lose, TokenOK
    <2>3. CountOK' BY <1>6 DEF Lose, TokenOK, CountOK
    <2>4. Open' = Open BY <1>6 DEF Lose, Open
    <2>5. CapOK' BY <2>4 DEF CapOK
    <2> QED BY <2>1, <2>2, <2>3, <2>5
  <1>7. ASSUME UNCHANGED vars PROVE Inv'
    BY <1>7 DEF vars, TokenOK, CountOK, CapOK, Open
  <1> QED BY <1>1, <1>2, <1>3, <1>4, <1>5, <1>6, <1>7 DEF Next

THEOREM Safety == Spec => []Inv
  BY InitInv, NextInv, PTL DEF Spec

\* what the properties need
THEOREM C07_C10 == Spec => [](TokenOK /\ CapOK)
  BY Safety, PTL DEF Inv
=============================================================================
