SPECIFICATION Spec
CONSTANTS
  BUF = 32
  MaxLines = 4
  LimitN = 3
  MaxFds = 0
  DeferPop = FALSE
  Guided = TRUE
  TSet = {1, 2, 5, 8, 10, 12, 14, 15, 19, 16, 21, 22, 23}
INVARIANTS Refines StructOK FreshAfterError BodyBound ContinueRule FilesOrdered AttachRule Witnesses
PROPERTIES EmptyReadInert
CHECK_DEADLOCK FALSE
