SPECIFICATION Spec
CONSTANTS
  BUF = 32
  MaxLines = 3
  LimitN = 5
  MaxFds = 0
  Guided = FALSE
INVARIANTS Refines StructOK FreshAfterError BodyBound ContinueRule FilesOrdered AttachRule
PROPERTIES EmptyReadInert
CHECK_DEADLOCK FALSE
