------------------------------ MODULE Bytes ------------------------------
(***************************************************************************)
(* Byte strings are sequences of integers 0..255.  Everything here is a    *)
(* total, pure operator.  Style rule: no recursion over bytes -- searches  *)
(* are set comprehensions that TLC evaluates in native loops.              *)
(***************************************************************************)
EXTENDS Naturals, Sequences, FiniteSets

CR == 13
LF == 10
SP == 32
HT == 9
COLON == 58
COMMA == 44
SLASH == 47
PLUS == 43

\* Smallest element of a non-empty set of naturals.
MinOf(S) == CHOOSE x \in S : \A y \in S : x <= y
MaxOf(S) == CHOOSE x \in S : \A y \in S : x >= y
Min2(a, b) == IF a <= b THEN a ELSE b

\* a..b inclusive, 1-based; empty when b < a.
Slice(s, a, b) == IF b < a THEN <<>> ELSE SubSeq(s, a, b)
From(s, a) == Slice(s, a, Len(s))

\* Position (1-based) of the first CR LF that lies entirely in from..to; 0 if none.
FindCRLF(s, from, to) ==
    LET S == {i \in from..(to - 1) : s[i] = CR /\ s[i + 1] = LF}
    IN IF S = {} THEN 0 ELSE MinOf(S)

\* Position of the first byte b in from..to; 0 if none.
FindByte(s, b, from, to) ==
    LET S == {i \in from..to : s[i] = b}
    IN IF S = {} THEN 0 ELSE MinOf(S)

\* First position in from..to at which the 4 bytes CR LF CR LF start; 0 if none.
FindCRLFCRLF(s, from, to) ==
    LET S == {i \in from..(to - 3) : s[i] = CR /\ s[i + 1] = LF /\ s[i + 2] = CR /\ s[i + 3] = LF}
    IN IF S = {} THEN 0 ELSE MinOf(S)

IsPrefixOf(p, s) == Len(p) <= Len(s) /\ \A i \in 1..Len(p) : p[i] = s[i]

Contains(s, pat) ==
    \E i \in 1..(Len(s) - Len(pat) + 1) : \A j \in 1..Len(pat) : s[i + j - 1] = pat[j]

AsciiLower(s) == [i \in 1..Len(s) |-> IF s[i] >= 65 /\ s[i] <= 90 THEN s[i] + 32 ELSE s[i]]

(***************************************************************************)
(* UTF-8 validation exactly as core::str::from_utf8 reports it:            *)
(* valid_up_to and error_len (0 stands for None = input ended inside a     *)
(* sequence).  Validity is a local property of each position, so no        *)
(* recursion is needed.                                                    *)
(***************************************************************************)
IsCont(b) == b >= 128 /\ b <= 191

\* Expected width of a sequence whose lead byte is b (0 = not a lead byte).
LeadWidth(b) == IF b < 128 THEN 1
                ELSE IF b >= 194 /\ b <= 223 THEN 2
                ELSE IF b >= 224 /\ b <= 239 THEN 3
                ELSE IF b >= 240 /\ b <= 244 THEN 4 ELSE 0

\* Is c an acceptable second byte after lead byte b (the non-uniform ranges).
Second(b, c) == CASE b = 224 -> c >= 160 /\ c <= 191
                  [] b = 237 -> c >= 128 /\ c <= 159
                  [] b = 240 -> c >= 144 /\ c <= 191
                  [] b = 244 -> c >= 128 /\ c <= 143
                  [] OTHER -> IsCont(c)

\* Outcome of decoding one scalar value starting at i in s[1..n]:
\*   [ok |-> TRUE,  w |-> width]   or   [ok |-> FALSE, w |-> error_len (0 = None)]
Utf8At(s, i, n) ==
    LET b == s[i]  w == LeadWidth(b) IN
    IF w = 1 THEN [ok |-> TRUE, w |-> 1]
    ELSE IF w = 0 THEN [ok |-> FALSE, w |-> 1]
    ELSE IF i + 1 > n THEN [ok |-> FALSE, w |-> 0]
    ELSE IF ~Second(b, s[i + 1]) THEN [ok |-> FALSE, w |-> 1]
    ELSE IF w = 2 THEN [ok |-> TRUE, w |-> 2]
    ELSE IF i + 2 > n THEN [ok |-> FALSE, w |-> 0]
    ELSE IF ~IsCont(s[i + 2]) THEN [ok |-> FALSE, w |-> 2]
    ELSE IF w = 3 THEN [ok |-> TRUE, w |-> 3]
    ELSE IF i + 3 > n THEN [ok |-> FALSE, w |-> 0]
    ELSE IF ~IsCont(s[i + 3]) THEN [ok |-> FALSE, w |-> 3]
    ELSE [ok |-> TRUE, w |-> 4]

AllAscii(s) == \A i \in 1..Len(s) : s[i] < 128

\* [ok, upto, elen]: upto = number of valid leading bytes (Rust's valid_up_to).
Utf8Check(s) ==
    IF AllAscii(s) THEN [ok |-> TRUE, upto |-> Len(s), elen |-> 0]
    ELSE
    LET n == Len(s)
        GoodLead(i) == s[i] >= 128 /\ Utf8At(s, i, n).ok
        Covered(i) == \E k \in 1..3 : i - k >= 1 /\ s[i - k] >= 128 /\ GoodLead(i - k)
                                      /\ Utf8At(s, i - k, n).w > k
        Bad == {i \in 1..n : ~(s[i] < 128 \/ GoodLead(i) \/ (IsCont(s[i]) /\ Covered(i)))}
    IN IF Bad = {} THEN [ok |-> TRUE, upto |-> n, elen |-> 0]
       ELSE LET i == MinOf(Bad) IN [ok |-> FALSE, upto |-> i - 1, elen |-> Utf8At(s, i, n).w]

IsUtf8(s) == Utf8Check(s).ok

\* String::from_utf8_lossy: every maximal invalid part (error_len bytes; the whole rest if the input ends
\* inside a sequence) becomes one U+FFFD.  One pass, scalar by scalar (ASCII runs are copied at once).
RECURSIVE LossyFrom(_, _, _, _)
LossyFrom(s, i, n, acc) ==
    IF i > n THEN acc
    ELSE IF s[i] < 128
         THEN LET j == MinOf({k \in i..n : s[k] >= 128} \cup {n + 1}) IN LossyFrom(s, j, n, acc \o Slice(s, i, j - 1))
    ELSE LET r == Utf8At(s, i, n) IN
         IF r.ok THEN LossyFrom(s, i + r.w, n, acc \o Slice(s, i, i + r.w - 1))
         ELSE IF r.w = 0 THEN acc \o <<239, 191, 189>>
         ELSE LossyFrom(s, i + r.w, n, acc \o <<239, 191, 189>>)
Lossy(s) == IF AllAscii(s) THEN s ELSE LossyFrom(s, 1, Len(s), <<>>)

(***************************************************************************)
(* str::trim: removes leading and trailing scalar values with the Unicode  *)
(* White_Space property, here recognised in their UTF-8 encodings.  Only   *)
(* applied to valid UTF-8.  Recursion depth = number of trimmed scalars.   *)
(***************************************************************************)
\* width of a white-space scalar starting at i (0 if none)
WsFwd(s, i, n) ==
    IF i > n THEN 0
    ELSE IF (s[i] >= 9 /\ s[i] <= 13) \/ s[i] = 32 THEN 1
    ELSE IF i + 1 <= n /\ s[i] = 194 /\ (s[i + 1] = 133 \/ s[i + 1] = 160) THEN 2
    ELSE IF i + 2 <= n /\ s[i] = 225 /\ s[i + 1] = 154 /\ s[i + 2] = 128 THEN 3
    ELSE IF i + 2 <= n /\ s[i] = 226 /\ s[i + 1] = 128
            /\ ((s[i + 2] >= 128 /\ s[i + 2] <= 138) \/ s[i + 2] = 168 \/ s[i + 2] = 169 \/ s[i + 2] = 175) THEN 3
    ELSE IF i + 2 <= n /\ s[i] = 226 /\ s[i + 1] = 129 /\ s[i + 2] = 159 THEN 3
    ELSE IF i + 2 <= n /\ s[i] = 227 /\ s[i + 1] = 128 /\ s[i + 2] = 128 THEN 3
    ELSE 0

\* width of a white-space scalar ending at j, not reaching below lo (0 if none)
WsBack(s, j, lo) ==
    IF j < lo THEN 0
    ELSE IF (s[j] >= 9 /\ s[j] <= 13) \/ s[j] = 32 THEN 1
    ELSE IF j - 1 >= lo /\ WsFwd(s, j - 1, j) = 2 THEN 2
    ELSE IF j - 2 >= lo /\ WsFwd(s, j - 2, j) = 3 THEN 3
    ELSE 0

RECURSIVE SkipFwd(_, _, _)
SkipFwd(s, i, n) == LET w == WsFwd(s, i, n) IN IF w = 0 THEN i ELSE SkipFwd(s, i + w, n)
RECURSIVE SkipBack(_, _, _)
SkipBack(s, j, lo) == LET w == WsBack(s, j, lo) IN IF w = 0 THEN j ELSE SkipBack(s, j - w, lo)

Trim(s) == LET a == SkipFwd(s, 1, Len(s))
               b == SkipBack(s, Len(s), a)
           IN Slice(s, a, b)

(***************************************************************************)
(* Unsigned decimals as digit sequences (TLC integers are 32-bit signed).  *)
(***************************************************************************)
IsDigit(b) == b >= 48 /\ b <= 57

\* strip leading zeros of a non-empty digit-value sequence (values 0..9)
Normalize(d) == LET nz == {i \in 1..Len(d) : d[i] # 0}
                IN IF nz = {} THEN <<0>> ELSE From(d, MinOf(nz))

\* a, b normalized digit-value sequences
DigLess(a, b) == \/ Len(a) < Len(b)
                 \/ /\ Len(a) = Len(b)
                    /\ \E i \in 1..Len(a) : a[i] < b[i] /\ \A j \in 1..(i - 1) : a[j] = b[j]
DigLeq(a, b) == a = b \/ DigLess(a, b)

U32MAX == <<4, 2, 9, 4, 9, 6, 7, 2, 9, 5>>

\* u32::from_str on a byte string: optional '+', one or more ASCII digits, value <= 2^32-1.
\* (Rust accepts the leading '+': named deviation LenientPlus in DESIGN 5.9.)
ParseU32(s) ==
    LET body == IF Len(s) >= 1 /\ s[1] = PLUS THEN From(s, 2) ELSE s
    IN IF Len(body) = 0 \/ \E i \in 1..Len(body) : ~IsDigit(body[i])
       THEN [ok |-> FALSE, d |-> <<0>>]
       ELSE LET d == Normalize([i \in 1..Len(body) |-> body[i] - 48])
            IN [ok |-> DigLeq(d, U32MAX), d |-> d]

Pow10(k) == CASE k = 0 -> 1 [] k = 1 -> 10 [] k = 2 -> 100 [] k = 3 -> 1000 [] k = 4 -> 10000
              [] k = 5 -> 100000 [] k = 6 -> 1000000 [] k = 7 -> 10000000 [] k = 8 -> 100000000
              [] k = 9 -> 1000000000

\* natural number (< 2^31) -> normalized digit-value sequence
NatDigits(n) == LET k == MinOf({j \in 1..10 : j = 10 \/ n < Pow10(j)})
                IN [i \in 1..k |-> (n \div Pow10(k - i)) % 10]

\* digit-value sequence -> natural; only for values < 10^9 (callers check Len <= 9)
RECURSIVE DigitsNat(_)
DigitsNat(d) == IF Len(d) = 0 THEN 0 ELSE DigitsNat(SubSeq(d, 1, Len(d) - 1)) * 10 + d[Len(d)]

\* digit values -> ASCII bytes
DigitsAscii(d) == [i \in 1..Len(d) |-> d[i] + 48]

\* normalized digits d  >  natural n
DigGtNat(d, n) == DigLess(NatDigits(n), d)

=============================================================================
