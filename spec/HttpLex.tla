----------------------------- MODULE HttpLex -----------------------------
(***************************************************************************)
(* One-line rules of the request grammar: request line, header line,       *)
(* tokens, URI path.  Total functions from byte strings to results, with   *)
(* the error payloads the crate reports.                                   *)
(***************************************************************************)
EXTENDS Bytes, Lexicon

(***************************************************************************)
(* Errors: one record shape for all (TLC refuses to compare values of      *)
(* different shapes).  t = kind, a/b = byte-string or digit payloads,      *)
(* n/m = small integers.                                                   *)
(***************************************************************************)
Err(t, a, b, n, m) == [t |-> t, a |-> a, b |-> b, n |-> n, m |-> m]
NoErr == Err("none", <<>>, <<>>, 0, 0)
E_InvalidRequest == Err("InvalidRequest", <<>>, <<>>, 0, 0)
E_InvalidMethod == Err("InvalidHttpMethod", <<>>, <<>>, 0, 0)
E_InvalidVersion == Err("InvalidHttpVersion", <<>>, <<>>, 0, 0)
E_UriEmpty == Err("InvalidUri", <<>>, <<>>, 0, 0)      \* "Empty URI not allowed."
E_UriUtf8 == Err("InvalidUri", <<>>, <<>>, 1, 0)       \* "Cannot parse URI as UTF-8."
E_SizeLimit(limitDigits, nDigits) == Err("SizeLimitExceeded", limitDigits, nDigits, 0, 0)
E_HFormat(line) == Err("H.InvalidFormat", line, <<>>, 0, 0)
E_HValue(name, value) == Err("H.InvalidValue", name, value, 0, 0)
E_HUtf8(upto, elen) == Err("H.InvalidUtf8String", <<>>, <<>>, upto, elen)
E_HSize(text) == Err("H.SizeLimitExceeded", text, <<>>, 0, 0)
E_HUnsupportedValue(name, value) == Err("H.UnsupportedValue", name, value, 0, 0)

(***************************************************************************)
(* Tokens (C16): exact, case-sensitive.                                    *)
(***************************************************************************)
ParseMethod(b) == IF b = L_GET THEN "GET" ELSE IF b = L_PUT THEN "PUT"
                  ELSE IF b = L_PATCH THEN "PATCH" ELSE "bad"
MethodRaw(m) == CASE m = "GET" -> L_GET [] m = "PUT" -> L_PUT [] m = "PATCH" -> L_PATCH
Methods == {"GET", "PUT", "PATCH"}

ParseVersion(b) == IF b = L_HTTP10 THEN "1.0" ELSE IF b = L_HTTP11 THEN "1.1" ELSE "bad"
VersionRaw(v) == CASE v = "1.0" -> L_HTTP10 [] v = "1.1" -> L_HTTP11
Versions == {"1.0", "1.1"}

\* MediaType::try_from: empty -> error; invalid UTF-8 -> error; trimmed exact match.
ParseMediaType(b) ==
    IF Len(b) = 0 \/ ~IsUtf8(b) THEN "bad"
    ELSE LET t == Trim(b) IN
         IF t = L_TEXT_PLAIN THEN "text" ELSE IF t = L_APP_JSON THEN "json" ELSE "bad"
MediaRaw(m) == CASE m = "text" -> L_TEXT_PLAIN [] m = "json" -> L_APP_JSON

\* Uri::get_abs_path on a valid UTF-8 URI (bytes).
AbsPath(u) ==
    IF IsPrefixOf(L_HTTP_SCHEME, u) THEN
        LET rest == From(u, Len(L_HTTP_SCHEME) + 1)
            p == FindByte(rest, SLASH, 1, Len(rest))
        IN IF p = 0 THEN <<>> ELSE From(rest, p)
    ELSE IF Len(u) >= 1 /\ u[1] = SLASH THEN u ELSE <<>>

(***************************************************************************)
(* Request line (C02): split at the first two SP; then method, URI,        *)
(* version are judged in that order.                                       *)
(***************************************************************************)
ParseRequestLine(line) ==
    LET n == Len(line)
        sp1 == FindByte(line, SP, 1, n)
        sp2 == IF sp1 = 0 THEN 0 ELSE FindByte(line, SP, sp1 + 1, n)
    IN IF sp1 = 0 \/ sp2 = 0 THEN [ok |-> FALSE, err |-> E_InvalidRequest]
       ELSE LET mb == Slice(line, 1, sp1 - 1)
                ub == Slice(line, sp1 + 1, sp2 - 1)
                vb == Slice(line, sp2 + 1, n)
                m == ParseMethod(mb)
                v == ParseVersion(vb)
            IN IF m = "bad" THEN [ok |-> FALSE, err |-> E_InvalidMethod]
               ELSE IF Len(ub) = 0 THEN [ok |-> FALSE, err |-> E_UriEmpty]
               ELSE IF ~IsUtf8(ub) THEN [ok |-> FALSE, err |-> E_UriUtf8]
               ELSE IF v = "bad" THEN [ok |-> FALSE, err |-> E_InvalidVersion]
               ELSE [ok |-> TRUE, m |-> m, uri |-> ub, v |-> v, err |-> NoErr]

(***************************************************************************)
(* Headers (C15).  custom is a sequence of <<name, value>> pairs without   *)
(* repeated names (a map; order is irrelevant and never compared).         *)
(***************************************************************************)
DefaultHeaders == [cl |-> <<0>>, expect |-> FALSE, chunked |-> FALSE, accept |-> "text", custom |-> <<>>]

InsertCustom(cu, name, value) ==
    LET hit == {i \in 1..Len(cu) : cu[i][1] = name}
    IN IF hit = {} THEN Append(cu, <<name, value>>)
       ELSE [i \in 1..Len(cu) |-> IF i \in hit THEN <<name, value>> ELSE cu[i]]

\* Header::try_from: ASCII-lower-case, trim, match.
HeaderName(nameBytes) ==
    LET t == Trim(AsciiLower(nameBytes)) IN
    IF t = L_H_CL THEN "cl" ELSE IF t = L_H_CT THEN "ct" ELSE IF t = L_H_EXPECT THEN "expect"
    ELSE IF t = L_H_TE THEN "te" ELSE IF t = L_H_SERVER THEN "server"
    ELSE IF t = L_H_ACCEPT THEN "accept" ELSE IF t = L_H_AE THEN "ae" ELSE "other"

\* Encoding::try_from on the (already trimmed) value; v is valid UTF-8 here.
\* Parts between commas are examined left to right; the first offending part is reported.
EncodingCheck(v) ==
    IF Len(v) = 0 THEN [ok |-> FALSE, err |-> E_InvalidRequest]
    ELSE IF ~IsUtf8(v) THEN LET u == Utf8Check(v) IN [ok |-> FALSE, err |-> E_HUtf8(u.upto, u.elen)]
    ELSE
    LET n == Len(v)
        commas == {i \in 1..n : v[i] = COMMA}
        \* part starting at a (a = 1 or a-1 is a comma) ends before the next comma
        Starts == {1} \cup {i + 1 : i \in commas}
        EndOf(a) == LET nx == {c \in commas : c >= a} IN IF nx = {} THEN n ELSE MinOf(nx) - 1
        hasIdentity == Contains(v, L_IDENTITY)
        Offends(a) == LET t == Trim(Slice(v, a, EndOf(a))) IN
                        t = L_IDENTITY_Q0 \/ (t = L_STAR_Q0 /\ ~hasIdentity)
        bad == {a \in Starts : Offends(a)}
    IN IF bad = {} THEN [ok |-> TRUE, err |-> NoErr]
       ELSE LET a == MinOf(bad) IN [ok |-> FALSE, err |-> E_HValue(L_AE_NAME, Slice(v, a, EndOf(a)))]

\* Headers::parse_header_line.  res: "ok" | "ignored" (UnsupportedValue) | "fatal".
ParseHeaderLine(h, line) ==
    LET u == Utf8Check(line) IN
    IF ~u.ok THEN [res |-> "fatal", h |-> h, err |-> E_HUtf8(u.upto, u.elen)]
    ELSE
    LET n == Len(line)
        c == FindByte(line, COLON, 1, n)
    IN IF c = 0 THEN [res |-> "fatal", h |-> h, err |-> E_HFormat(line)]
       ELSE
       LET name == Slice(line, 1, c - 1)
           value == Slice(line, c + 1, n)
           tv == Trim(value)
           k == HeaderName(name)
           Ok(hh) == [res |-> "ok", h |-> hh, err |-> NoErr]
           Ignored == [res |-> "ignored", h |-> h, err |-> E_HUnsupportedValue(name, value)]
       IN CASE k = "cl" -> LET p == ParseU32(tv) IN
                           IF p.ok THEN Ok([h EXCEPT !.cl = p.d])
                           ELSE [res |-> "fatal", h |-> h, err |-> E_HValue(name, value)]
            [] k = "ct" -> IF ParseMediaType(tv) # "bad" THEN Ok(h) ELSE Ignored
            [] k = "accept" -> LET m == ParseMediaType(tv) IN
                               IF m # "bad" THEN Ok([h EXCEPT !.accept = m]) ELSE Ignored
            [] k = "te" -> IF tv = L_CHUNKED THEN Ok([h EXCEPT !.chunked = TRUE])
                           ELSE IF tv = L_IDENTITY THEN Ok(h) ELSE Ignored
            [] k = "expect" -> IF tv = L_CONTINUE100 THEN Ok([h EXCEPT !.expect = TRUE]) ELSE Ignored
            [] k = "server" -> Ok(h)
            [] k = "ae" -> LET e == EncodingCheck(tv) IN
                           IF e.ok THEN Ok(h) ELSE [res |-> "fatal", h |-> h, err |-> e.err]
            [] OTHER -> Ok([h EXCEPT !.custom = InsertCustom(@, Trim(name), tv)])

(***************************************************************************)
(* Headers::try_from: the whole block must be UTF-8; lines are the pieces  *)
(* between CR LF; parsing stops at the first empty line; only              *)
(* UnsupportedValue is tolerated.  (C15: block parsing = folding line      *)
(* parsing.)                                                               *)
(***************************************************************************)
RECURSIVE HeaderBlockFrom(_, _, _)
HeaderBlockFrom(s, i, h) ==
    LET n == Len(s)
        p == FindCRLF(s, i, n)
        line == IF p = 0 THEN Slice(s, i, n) ELSE Slice(s, i, p - 1)
    IN IF Len(line) = 0 THEN [ok |-> TRUE, h |-> h, err |-> NoErr]
       ELSE LET r == ParseHeaderLine(h, line) IN
            IF r.res = "fatal" THEN [ok |-> FALSE, h |-> DefaultHeaders, err |-> r.err]
            ELSE IF p = 0 THEN [ok |-> TRUE, h |-> r.h, err |-> NoErr]
            ELSE HeaderBlockFrom(s, p + 2, r.h)

ParseHeaderBlock(s) ==
    IF ~IsUtf8(s) THEN [ok |-> FALSE, h |-> DefaultHeaders, err |-> E_InvalidRequest]
    ELSE HeaderBlockFrom(s, 1, DefaultHeaders)

\* folding parse_header_line over a list of lines from the default headers
RECURSIVE FoldLines(_, _, _)
FoldLines(h, lines, acc) ==
    IF lines = <<>> THEN [h |-> h, results |-> acc]
    ELSE LET r == ParseHeaderLine(h, Head(lines)) IN
         FoldLines(r.h, Tail(lines), Append(acc, [k |-> r.res, e |-> r.err]))

=============================================================================
