SPECIFICATION GSpec
CONSTANTS
  BUF = 32
  Clients = {1, 2}
  Fds = {1, 2}
  MaxConn = 2
  Rogue = {2}
  Programs = {3, 12}
  SndCap = 100000
  EventsCap = 4
  LimitN = 20
  HasKill = FALSE
  AllowKill = FALSE
  AllowFds = FALSE
  AllowFlush = FALSE
  EmitAtBound = TRUE
  Pin1 = 12
  Pin2 = 3
  MaxMid = 1
  HistMax = 8
  AtomicPoll = FALSE
INVARIANTS Emit PollOK TokensOK InterestsOK
CHECK_DEADLOCK FALSE
