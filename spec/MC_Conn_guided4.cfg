SPECIFICATION Spec
CONSTANTS
  BUF = 32
  MaxLines = 4
  LimitN = 3
  MaxFds = 0
  DeferPop = FALSE
  Guided = TRUE
  TSet = {1, 2, 3, 4, 5, 6, 7, 8, 9, 10, 11, 12, 13, 14, 15, 16, 17, 18, 19, 20, 21, 22, 23, 24}
INVARIANTS Refines StructOK FreshAfterError BodyBound ContinueRule FilesOrdered AttachRule Witnesses
PROPERTIES EmptyReadInert
CHECK_DEADLOCK FALSE
