---------------------------- MODULE HttpGrammar ----------------------------
(***************************************************************************)
(* The declarative, whole-stream meaning of a connection's input.          *)
(* Whole(stream, limit) maps a complete byte stream to the sequence of     *)
(* outputs (delivered requests and 100-continue markers, in order) and     *)
(* the first error.  No window, cursor or read boundary occurs here; BUF   *)
(* enters only through the line-length rule.  This operator is the         *)
(* statement of C02 / C04 / C13 and the yardstick for C01.                 *)
(***************************************************************************)
EXTENDS HttpConn

\* The line starting at position i (1-based):
\*   "line"       a CR LF lies entirely within the first BUF bytes from i
\*   "toolong"    at least BUF bytes are available from i and contain no CR LF
\*   "incomplete" otherwise (the stream ends first)
NextLine(s, i) ==
    LET n == Len(s)
        hi == IF i + BUF - 1 < n THEN i + BUF - 1 ELSE n
        p == FindCRLF(s, i, hi)
    IN IF p # 0 THEN [k |-> "line", a |-> i, b |-> p - 1, next |-> p + 2]
       ELSE IF n - i + 1 >= BUF THEN [k |-> "toolong", a |-> i, b |-> i + BUF - 1, next |-> 0]
       ELSE [k |-> "incomplete", a |-> i, b |-> n, next |-> 0]

\* header lines from position i up to the blank line
RECURSIVE HeadersFrom(_, _, _)
HeadersFrom(s, i, h) ==
    LET ln == NextLine(s, i) IN
    CASE ln.k = "incomplete" -> [k |-> "incomplete", h |-> h, next |-> 0, err |-> NoErr]
      [] ln.k = "toolong" -> [k |-> "err", h |-> h, next |-> 0, err |-> E_HSize(Lossy(Slice(s, ln.a, ln.b)))]
      [] ln.k = "line" ->
            IF ln.b < ln.a THEN [k |-> "end", h |-> h, next |-> ln.next, err |-> NoErr]
            ELSE LET r == ParseHeaderLine(h, Slice(s, ln.a, ln.b)) IN
                 IF r.res = "fatal" THEN [k |-> "err", h |-> h, next |-> 0, err |-> r.err]
                 ELSE HeadersFrom(s, ln.next, r.h)

NoOut == <<>>
\* One request starting at position i.
\*   [k |-> "req" | "err" | "incomplete", outs (what this element contributes), next, err]
RefOne(s, i, limit) ==
    LET n == Len(s)
        ln == NextLine(s, i)
        Inc(o) == [k |-> "incomplete", outs |-> o, next |-> 0, err |-> NoErr]
        Bad(e) == [k |-> "err", outs |-> NoOut, next |-> 0, err |-> e]
    IN CASE ln.k = "incomplete" -> Inc(NoOut)
         [] ln.k = "toolong" -> Bad(E_InvalidRequest)
         [] ln.k = "line" ->
            LET rl == ParseRequestLine(Slice(s, ln.a, ln.b)) IN
            IF ~rl.ok THEN Bad(rl.err)
            ELSE
            LET hs == HeadersFrom(s, ln.next, DefaultHeaders) IN
            CASE hs.k = "incomplete" -> Inc(NoOut)
              [] hs.k = "err" -> Bad(hs.err)
              [] hs.k = "end" ->
                 LET p == [NewReq(rl) EXCEPT !.h = hs.h]
                     cl == hs.h.cl
                     avail == n - hs.next + 1
                 IN IF cl = <<0>>
                    THEN [k |-> "req", outs |-> <<OutReq(Delivered(p, <<>>, FALSE, <<>>))>>,
                          next |-> hs.next, err |-> NoErr]
                    ELSE IF DigLess(limit, cl) THEN Bad(E_SizeLimit(limit, cl))
                    ELSE
                    LET cont == IF hs.h.expect THEN <<OutCont(rl.v)>> ELSE <<>> IN
                    IF DigGtNat(cl, avail) THEN Inc(cont)
                    ELSE LET len == DigitsNat(cl) IN
                         [k |-> "req",
                          outs |-> Append(cont, OutReq(Delivered(p, Slice(s, hs.next, hs.next + len - 1), TRUE, <<>>))),
                          next |-> hs.next + len, err |-> NoErr]

RECURSIVE WholeFrom(_, _, _, _)
WholeFrom(s, i, limit, acc) ==
    LET r == RefOne(s, i, limit) IN
    IF r.k = "req" THEN WholeFrom(s, r.next, limit, acc \o r.outs)
    ELSE [outs |-> acc \o r.outs, err |-> r.err]

Whole(s, limit) == WholeFrom(s, 1, limit, <<>>)

\* outputs with the descriptor lists removed (descriptors depend on the reads, see C12)
NoFiles(outs) == [i \in 1..Len(outs) |-> [outs[i] EXCEPT !.r.files = <<>>]]

=============================================================================
