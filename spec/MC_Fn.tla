------------------------------- MODULE MC_Fn -------------------------------
(***************************************************************************)
(* Algebraic facts about the function-level operators, evaluated by TLC on *)
(* enumerated finite domains (every initial state is one case):            *)
(*   C14  the two parsers' meanings agree on all template streams          *)
(*   C15  block parsing = folding line parsing; last-wins; sticky flags;   *)
(*        case / padding invariance of recognised names                    *)
(*   C16  exactness and round trip of tokens; status codes injective and   *)
(*        three digits; AbsPath is empty or a '/'-prefixed suffix          *)
(*   C17  first registration wins; dispatch invokes exactly the handler    *)
(*        stored under (method, absolute path)                             *)
(***************************************************************************)
EXTENDS OneShot, Router

CONSTANTS MaxLines, UriLen

VARIABLE x
vars == <<x>>

NT == Len(Templates)
\* all sequences of template indices of length 1..MaxLines
RECURSIVE SeqsUpTo(_)
SeqsUpTo(n) == IF n = 0 THEN {<<>>} ELSE LET S == SeqsUpTo(n - 1) IN S \cup {Append(s, t) : s \in {q \in S : Len(q) = n - 1}, t \in 1..NT}
RECURSIVE Cat(_)
Cat(q) == IF q = <<>> THEN <<>> ELSE Templates[Head(q)] \o Cat(Tail(q))

\* header lines for the algebra (without CRLF)
HL == <<L_H_CL \o <<58, 32, 51>>, L_H_CL \o <<58, 55>>, L_H_CL \o <<58, 120>>,
        L_H_EXPECT \o <<58>> \o L_CONTINUE100, L_H_EXPECT \o <<58, 49>>,
        L_H_TE \o <<58>> \o L_CHUNKED, L_H_TE \o <<58>> \o L_IDENTITY,
        L_H_ACCEPT \o <<58>> \o L_APP_JSON, L_H_ACCEPT \o <<58>> \o L_TEXT_PLAIN, L_H_ACCEPT \o <<58, 120>>,
        L_H_AE \o <<58>> \o L_IDENTITY_Q0, L_H_AE \o <<58>> \o L_STAR_Q0, L_H_AE \o <<58>>,
        <<88, 58, 49>>, <<88, 58, 50>>, <<89, 58, 49>>, <<78, 111>>, <<88, 58, 255>>>>
NH == Len(HL)
JoinCRLF(ls) == LET RECURSIVE J(_)
                    J(q) == IF q = <<>> THEN <<>> ELSE IF Len(q) = 1 THEN Head(q) ELSE Head(q) \o <<CR, LF>> \o J(Tail(q))
                IN J(ls)

UriAlpha == {104, 116, 112, 58, 47, 97, 46}
RECURSIVE Strs(_, _)
Strs(A, n) == IF n = 0 THEN {<<>>} ELSE LET S == Strs(A, n - 1) IN S \cup {Append(s, a) : s \in {q \in S : Len(q) = n - 1}, a \in A}

RoutePaths == <<<<>>, <<47>>, <<47, 97>>, <<47, 97, 47, 98>>, <<47, 97, 58, 98>>>>
Prefixes == <<<<>>, <<47, 97>>>>

Domain ==
    {[k |-> "stream", s |-> Cat(q), a |-> <<>>, b |-> <<>>, n |-> 0] : q \in SeqsUpTo(MaxLines)}
    \cup {[k |-> "hdr", s |-> <<>>, a |-> <<i, j, m>>, b |-> <<>>, n |-> 0] : i \in 1..NH, j \in 0..NH, m \in 0..NH}
    \cup {[k |-> "uri", s |-> u, a |-> <<>>, b |-> <<>>, n |-> 0] : u \in Strs(UriAlpha, UriLen) \cup {L_HTTP_SCHEME \o t : t \in Strs(UriAlpha, 3)}}
    \cup {[k |-> "token", s |-> <<>>, a |-> <<>>, b |-> <<>>, n |-> 0]}
    \cup {[k |-> "route", s |-> u, a |-> <<p, r1, r2, r3>>, b |-> <<m1, m2>>, n |-> pf] :
              u \in {<<47>>, <<47, 97>>, <<47, 97, 47, 98>>, L_HTTP_SCHEME \o <<104, 47, 97>>, <<97>>},
              p \in 1..5, r1 \in 1..5, r2 \in 1..5, r3 \in 1..5, m1 \in {"GET", "PUT"}, m2 \in {"GET", "PUT"}, pf \in 1..2}

Init == x \in Domain
Next == UNCHANGED x
Spec == Init /\ [][Next]_vars

Lines(t) == LET idx == SelectSeq(t, LAMBDA i : i # 0) IN [i \in 1..Len(idx) |-> HL[idx[i]]]

RECURSIVE WholeEnd(_, _, _)
\* position of the first byte not consumed by complete requests
WholeEnd(s, i, limit) == LET r == RefOne(s, i, limit) IN IF r.k = "req" THEN WholeEnd(s, r.next, limit) ELSE i

StreamOK ==
    LET s == x.s
        os == OneShotParse(s, FALSE, 0)
        w == Whole(s, <<5, 1, 2, 0, 0>>)
        clean == w.err = NoErr /\ WholeEnd(s, 1, <<5, 1, 2, 0, 0>>) = Len(s) + 1
        osMax == OneShotParse(s, TRUE, Len(s))
    IN /\ (w.err.t \notin {"H.SizeLimitExceeded"} /\ ~(w.err.t = "InvalidRequest" /\ os.ok)) => AgreeForward(os, w)
       /\ AgreeBackward(os, w, clean)
       /\ ~osMax.ok                                   \* a slice whose length reaches the maximum is rejected

HdrOK ==
    LET ls == Lines(x.a)
        f == FoldLines(DefaultHeaders, ls, <<>>)
        b == ParseHeaderBlock(JoinCRLF(ls))
        fatal == {i \in 1..Len(ls) : f.results[i].k = "fatal"}
        utf == IsUtf8(JoinCRLF(ls))
    IN \* C15: parsing a block = parsing its lines one by one (up to the first fatal line)
       /\ (utf /\ fatal = {}) => (b.ok /\ b.h = f.h)
       /\ (utf /\ fatal # {}) => (~b.ok /\ b.err = f.results[MinOf(fatal)].e)
       \* sticky flags and last-wins, on the fold
       /\ \A i \in 1..Len(ls) : (f.results[i].k = "ok" /\ ls[i] = HL[4]) => (fatal # {} \/ f.h.expect)
       /\ (fatal = {} /\ \E i \in 1..Len(ls) : ls[i] = HL[6]) => f.h.chunked
       /\ (fatal = {} /\ Len(ls) >= 1 /\ ls[Len(ls)] = HL[1]) => f.h.cl = <<3>>
       /\ (fatal = {} /\ Len(ls) >= 1 /\ ls[Len(ls)] = HL[2]) => f.h.cl = <<7>>
       \* case and padding of a recognised name do not matter
       /\ \A i \in 1..Len(ls) :
             LET l == ls[i]
                 c == FindByte(l, COLON, 1, Len(l))
                 shout == IF c = 0 THEN l ELSE [j \in 1..Len(l) |-> IF j < c /\ l[j] >= 97 /\ l[j] <= 122 THEN l[j] - 32 ELSE l[j]]
                 padded == IF c = 0 THEN l ELSE <<32, 9>> \o Slice(l, 1, c - 1) \o <<194, 160>> \o Slice(l, c, Len(l))
             IN IsUtf8(l) /\ HeaderName(Slice(l, 1, IF c = 0 THEN 0 ELSE c - 1)) # "other" =>
                   /\ ParseHeaderLine(DefaultHeaders, shout).h = ParseHeaderLine(DefaultHeaders, l).h
                   /\ ParseHeaderLine(DefaultHeaders, padded).res = ParseHeaderLine(DefaultHeaders, l).res
                   /\ ParseHeaderLine(DefaultHeaders, padded).h = ParseHeaderLine(DefaultHeaders, l).h

UriOK == LET u == x.s  p == AbsPath(u) IN
         \/ p = <<>>
         \/ /\ p[1] = SLASH
            /\ Len(p) <= Len(u) /\ p = From(u, Len(u) - Len(p) + 1)
            /\ (u[1] = SLASH => p = u)

TokenOK ==
    /\ \A m \in Methods : ParseMethod(MethodRaw(m)) = m
    /\ \A v \in Versions : ParseVersion(VersionRaw(v)) = v
    /\ \A m \in {"text", "json"} : ParseMediaType(MediaRaw(m)) = m /\ ParseMediaType(<<32>> \o MediaRaw(m) \o <<9>>) = m
    /\ ParseMethod(AsciiLower(L_GET)) = "bad" /\ ParseVersion(AsciiLower(L_HTTP11)) = "bad"
    /\ \A a, b \in StatusCodes : (IntAscii(a) = IntAscii(b)) => a = b
    /\ \A a \in StatusCodes : Len(IntAscii(a)) = 3

RouteOK ==
    LET prefix == Prefixes[x.n]
        routes == <<[m |-> x.b[1], path |-> RoutePaths[x.a[2]], code |-> 200],
                    [m |-> x.b[2], path |-> RoutePaths[x.a[3]], code |-> 204],
                    [m |-> x.b[1], path |-> RoutePaths[x.a[4]], code |-> 404]>>
        d == Dispatch(<<83>>, prefix, routes, x.b[1], x.s)
        key == <<x.b[1], AbsPath(x.s)>>
        stored == {i \in 1..3 : Added(prefix, routes, i) /\ Key(prefix, routes[i]) = key}
    IN /\ Cardinality(stored) <= 1                                  \* at most one handler per key is in effect
       /\ (stored = {}) <=> d.invoked = <<>>
       /\ \A i \in stored : d.invoked = <<i>>                        \* exactly that handler, once
       /\ \A i \in 1..3 : ~Added(prefix, routes, i) => \E j \in 1..(i - 1) : Key(prefix, routes[j]) = Key(prefix, routes[i])
       /\ LET rd == ReadOne(d.ser, 1) IN
            rd.ok /\ HeaderValue(rd.lines, L_R_SERVER).v = <<83>> /\ HeaderValue(rd.lines, L_R_CT).v = L_APP_JSON
               /\ (stored = {} => rd.code = 404)

CaseOK == CASE x.k = "stream" -> StreamOK
            [] x.k = "hdr" -> HdrOK
            [] x.k = "uri" -> UriOK
            [] x.k = "token" -> TokenOK
            [] x.k = "route" -> RouteOK

WitnessNames == <<"oneshot_accepts", "conn_one_clean", "get_with_body", "hdr_fatal", "hdr_lastwins", "abs_uri", "route_dup", "route_hit">>
ASSUME \A i \in 1..Len(WitnessNames) : TLCSet(i, FALSE)
Witness(i, cond) == IF cond /\ ~TLCGet(i) THEN TLCSet(i, TRUE) /\ PrintT(<<"WITNESS", WitnessNames[i]>>) ELSE TRUE
Witnesses ==
    /\ Witness(1, x.k = "stream" /\ OneShotParse(x.s, FALSE, 0).ok)
    /\ Witness(2, x.k = "stream" /\ Whole(x.s, <<5, 1, 2, 0, 0>>).err = NoErr /\ WholeEnd(x.s, 1, <<5, 1, 2, 0, 0>>) = Len(x.s) + 1 /\ Len(x.s) > 0)
    /\ Witness(3, x.k = "stream" /\ ~OneShotParse(x.s, FALSE, 0).ok /\ LET w == Whole(x.s, <<5, 1, 2, 0, 0>>) IN Len(w.outs) = 1 /\ w.outs[1].k = "req" /\ w.outs[1].r.m = "GET" /\ w.outs[1].r.hasBody)
    /\ Witness(4, x.k = "hdr" /\ ~ParseHeaderBlock(JoinCRLF(Lines(x.a))).ok)
    /\ Witness(5, x.k = "hdr" /\ Lines(x.a) = <<HL[2], HL[1]>>)
    /\ Witness(6, x.k = "uri" /\ IsPrefixOf(L_HTTP_SCHEME, x.s) /\ AbsPath(x.s) # <<>>)
    /\ Witness(7, x.k = "route" /\ x.a[2] = x.a[3] /\ x.b[1] = x.b[2])
    /\ Witness(8, x.k = "route" /\ RouteOK /\ Dispatch(<<83>>, Prefixes[x.n], <<[m |-> x.b[1], path |-> RoutePaths[x.a[2]], code |-> 200], [m |-> x.b[2], path |-> RoutePaths[x.a[3]], code |-> 204], [m |-> x.b[1], path |-> RoutePaths[x.a[4]], code |-> 404]>>, x.b[1], x.s).invoked # <<>>)

=============================================================================
