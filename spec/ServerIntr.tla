----------------------------- MODULE ServerIntr -----------------------------
(***************************************************************************)
(* The epoll-interest core of the server, without bytes: for every entry   *)
(* its state (awaiting input / awaiting output / closed), the interest     *)
(* registered with epoll (IN or OUT), how many responses are queued or     *)
(* partly written (pend) and how many requests are in flight (infl).       *)
(*                                                                         *)
(* Purpose: the invariants behind C08 -- output is never parked under IN   *)
(* interest (no lost wake-up: a response that is queued will be written),  *)
(* OUT interest is never left armed with nothing to write (no spin, and    *)
(* requests() never fails with InvalidWrite), a closed entry holds no      *)
(* output (C09/C10: only unanswered requests keep it) -- are proved here   *)
(* with TLAPS for ANY set of descriptor numbers (ServerIntr_proofs.tla),   *)
(* while MC_Server checks with TLC that every step of the detailed model   *)
(* (the one the code is bound to by trace validation) is a step of this    *)
(* module under the refinement mapping given there (IntrRefines).          *)
(*                                                                         *)
(* Guards mention only what the kernel and the code look at: an IN event   *)
(* is delivered only under IN interest, an OUT event only under OUT        *)
(* interest, and the code skips entries that are Closed.                   *)
(***************************************************************************)
EXTENDS Naturals

CONSTANT FD

VARIABLES st,     \* [FD -> {"none", "In", "Out", "Closed"}]
          intr,   \* [FD -> {"IN", "OUT"}]   registered epoll interest
          pend,   \* [FD -> Nat]             responses queued or partly written
          infl    \* [FD -> Nat]             requests handed out and not yet answered
vars == <<st, intr, pend, infl>>

TypeOK == /\ st \in [FD -> {"none", "In", "Out", "Closed"}]
          /\ intr \in [FD -> {"IN", "OUT"}]
          /\ pend \in [FD -> Nat]
          /\ infl \in [FD -> Nat]

Init == /\ st = [f \in FD |-> "none"]
        /\ intr = [f \in FD |-> "IN"]
        /\ pend = [f \in FD |-> 0]
        /\ infl = [f \in FD |-> 0]

Live(f) == st[f] = "In" \/ st[f] = "Out"

\* accept: a new entry awaits input, registered for IN
Accept(f) == /\ st[f] = "none"
             /\ st' = [st EXCEPT ![f] = "In"]
             /\ intr' = [intr EXCEPT ![f] = "IN"]
             /\ pend' = [pend EXCEPT ![f] = 0]
             /\ infl' = [infl EXCEPT ![f] = 0]

\* an IN event: one try_read yields any number of requests and queues any number of responses
\* (100 Continue, 400); with output pending the entry is switched to OUT
Read(f) == /\ Live(f) /\ intr[f] = "IN"
           /\ infl'[f] \in Nat /\ infl'[f] >= infl[f] /\ infl' = [infl EXCEPT ![f] = infl'[f]]
           /\ pend'[f] \in Nat /\ pend'[f] >= pend[f] /\ pend' = [pend EXCEPT ![f] = pend'[f]]
           /\ IF pend'[f] > 0
              THEN st' = [st EXCEPT ![f] = "Out"] /\ intr' = [intr EXCEPT ![f] = "OUT"]
              ELSE UNCHANGED <<st, intr>>

\* an IN event whose receive returns end-of-stream (the peer went away in between)
ReadEof(f) == /\ Live(f) /\ intr[f] = "IN"
              /\ st' = [st EXCEPT ![f] = "Closed"]
              /\ UNCHANGED <<intr, pend, infl>>

\* an OUT event (or one write of a flush): d = 1 if the write completes a response.  With nothing
\* pending the code fails with InvalidWrite -- NoInvalidWrite says that cannot happen.
Write(f, d) == /\ Live(f) /\ (intr[f] = "OUT" \/ st[f] = "Out") /\ pend[f] > 0
               /\ d \in {0, 1}
               /\ pend' = [pend EXCEPT ![f] = @ - d]
               /\ IF pend[f] - d = 0
                  THEN st' = [st EXCEPT ![f] = "In"] /\ intr' = [intr EXCEPT ![f] = "IN"]
                  ELSE UNCHANGED <<st, intr>>
               /\ UNCHANGED infl

\* a write fails (EPIPE, would-block, zero): everything pending is discarded, the entry is closed
WriteFail(f) == /\ Live(f) /\ (intr[f] = "OUT" \/ st[f] = "Out") /\ pend[f] > 0
                /\ st' = [st EXCEPT ![f] = "Closed"]
                /\ pend' = [pend EXCEPT ![f] = 0]
                /\ UNCHANGED <<intr, infl>>

\* hang-up event: output discarded, entry closed
Hup(f) == /\ Live(f)
          /\ st' = [st EXCEPT ![f] = "Closed"]
          /\ pend' = [pend EXCEPT ![f] = 0]
          /\ UNCHANGED <<intr, infl>>

\* the application answers a request of entry f
Respond(f) == /\ st[f] # "none" /\ infl[f] > 0
              /\ infl' = [infl EXCEPT ![f] = @ - 1]
              /\ IF st[f] = "Closed" THEN UNCHANGED <<st, intr, pend>>
                 ELSE /\ pend' = [pend EXCEPT ![f] = @ + 1]
                      /\ st' = [st EXCEPT ![f] = "Out"]
                      /\ intr' = [intr EXCEPT ![f] = "OUT"]

\* flush_outgoing_writes: every entry awaiting output is written until it is empty (and re-armed for
\* IN) or a write fails (closed)
Flush(R) == /\ R \subseteq {f \in FD : st[f] = "Out"}
            /\ st' \in [FD -> {"none", "In", "Out", "Closed"}]
            /\ \A f \in FD : IF f \in R THEN st'[f] \in {"In", "Closed"} ELSE st'[f] = st[f]
            /\ intr' = [f \in FD |-> IF f \in R /\ st'[f] = "In" THEN "IN" ELSE intr[f]]
            /\ pend' = [f \in FD |-> IF f \in R THEN 0 ELSE pend[f]]
            /\ UNCHANGED infl

\* end of requests(): closed entries with nothing pending and nothing in flight are dropped
Sweep(R) == /\ R \subseteq {f \in FD : st[f] = "Closed" /\ pend[f] = 0 /\ infl[f] = 0}
            /\ st' = [f \in FD |-> IF f \in R THEN "none" ELSE st[f]]
            /\ intr' = [f \in FD |-> IF f \in R THEN "IN" ELSE intr[f]]
            /\ UNCHANGED <<pend, infl>>

Next == \/ \E f \in FD : Accept(f) \/ Read(f) \/ ReadEof(f) \/ WriteFail(f) \/ Hup(f) \/ Respond(f)
        \/ \E f \in FD : \E d \in {0, 1} : Write(f, d)
        \/ \E R \in SUBSET FD : Flush(R) \/ Sweep(R)

Spec == Init /\ [][Next]_vars

-----------------------------------------------------------------------------
\* the inductive invariant
IntrOK == \A f \in FD :
             /\ st[f] = "In" => (intr[f] = "IN" /\ pend[f] = 0)
             /\ st[f] = "Out" => (intr[f] = "OUT" /\ pend[f] > 0)
             /\ st[f] = "Closed" => pend[f] = 0
Inv == TypeOK /\ IntrOK

\* what the properties need
\* C08 (no stall): a live entry with output pending is registered for OUT
NoParkedOutput == \A f \in FD : (Live(f) /\ pend[f] > 0) => intr[f] = "OUT"
\* C08 (no spin; requests() never fails with InvalidWrite): OUT interest on a live entry means output
NoInvalidWrite == \A f \in FD : (Live(f) /\ intr[f] = "OUT") => pend[f] > 0
\* C09 / C10: a closed entry holds no output -- nothing but unanswered requests keeps it from being dropped
ClosedNoOutput == \A f \in FD : st[f] = "Closed" => pend[f] = 0

=============================================================================
