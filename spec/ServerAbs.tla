----------------------------- MODULE ServerAbs -----------------------------
(***************************************************************************)
(* The ownership and capacity core of the server, without bytes: which     *)
(* connection entry sits at which descriptor number, how many requests of  *)
(* it the application still holds, and when an entry may be dropped.       *)
(*                                                                         *)
(* Purpose: the invariants behind C07 (a response can only reach the       *)
(* client that sent the request, although responses are routed by          *)
(* descriptor NUMBER and the kernel reuses numbers at once) and C10 (never *)
(* more than MaxConn entries) are proved here with TLAPS for ANY number of *)
(* clients, descriptor numbers and any capacity (ServerAbs_proofs.tla),    *)
(* while MC_Server checks with TLC that every step of the detailed model   *)
(* (the one the code is bound to by trace validation) is a step of this    *)
(* module under the refinement mapping given there (property AbsRefines).  *)
(*                                                                         *)
(* tok[f][c] = number of requests the application holds (or is about to be *)
(* handed) that name descriptor f and were sent by client c.               *)
(***************************************************************************)
EXTENDS Naturals, FiniteSets

CONSTANTS FD,        \* descriptor numbers
          CL,        \* clients
          MaxConn    \* capacity

ASSUME ConstAssump == MaxConn \in Nat /\ IsFiniteSet(FD)

VARIABLES st,        \* [FD -> {"none", "live", "closed"}]
          peer,      \* [FD -> CL]: the client whose connection sits at the descriptor (meaningful unless st = "none")
          infl,      \* [FD -> Nat]: in-flight count of the entry
          tok        \* [FD -> [CL -> Nat]]
vars == <<st, peer, infl, tok>>

Open == {f \in FD : st[f] # "none"}

TypeOK == /\ st \in [FD -> {"none", "live", "closed"}]
          /\ peer \in [FD -> CL]
          /\ infl \in [FD -> Nat]
          /\ tok \in [FD -> [CL -> Nat]]

Init == /\ st = [f \in FD |-> "none"]
        /\ peer \in [FD -> CL]
        /\ infl = [f \in FD |-> 0]
        /\ tok = [f \in FD |-> [c \in CL |-> 0]]

\* accept(2) returns a number that is not in use -- possibly one that was in use a moment ago
Accept(f, c) == /\ st[f] = "none" /\ Cardinality(Open) < MaxConn
                /\ st' = [st EXCEPT ![f] = "live"]
                /\ peer' = [peer EXCEPT ![f] = c]
                /\ infl' = [infl EXCEPT ![f] = 0]
                /\ UNCHANGED tok

\* a read completes one or more requests: they are handed out carrying the descriptor number
Yield(f) == /\ st[f] = "live"
            /\ infl'[f] \in Nat /\ infl'[f] > infl[f]
            /\ infl' = [infl EXCEPT ![f] = infl'[f]]
            /\ tok' = [tok EXCEPT ![f][peer[f]] = @ + (infl'[f] - infl[f])]
            /\ UNCHANGED <<st, peer>>

\* hang-up, end of stream, failed write (a flush may close several entries in one step)
Hup(R) == /\ R \subseteq {f \in FD : st[f] = "live"}
          /\ st' = [f \in FD |-> IF f \in R THEN "closed" ELSE st[f]]
          /\ UNCHANGED <<peer, infl, tok>>

\* the application answers a request it holds; the server looks the entry up by number only
Respond(f, c) == /\ tok[f][c] > 0
                 /\ tok' = [tok EXCEPT ![f][c] = @ - 1]
                 /\ infl' = IF st[f] # "none" THEN [infl EXCEPT ![f] = @ - 1] ELSE infl
                 /\ UNCHANGED <<st, peer>>

\* end of requests(): entries that are closed and have nothing in flight may be dropped
Sweep(R) == /\ R \subseteq {f \in FD : st[f] = "closed" /\ infl[f] = 0}
            /\ st' = [f \in FD |-> IF f \in R THEN "none" ELSE st[f]]
            /\ peer' \in [FD -> CL] /\ \A f \in FD \ R : peer'[f] = peer[f]     \* (a dropped entry has no peer)
            /\ UNCHANGED <<infl, tok>>

\* requests() ends with Err(ShutdownEvent): requests parsed earlier in the call are lost to the
\* application, their in-flight counts stay (the entries are then never dropped: a leak, not a mix-up)
Lose == /\ tok' \in [FD -> [CL -> Nat]]
        /\ \A f \in FD : \A c \in CL : tok'[f][c] <= tok[f][c]
        /\ UNCHANGED <<st, peer, infl>>

Next == \/ \E f \in FD : \E c \in CL : Accept(f, c) \/ Respond(f, c)
        \/ \E f \in FD : Yield(f)
        \/ \E R \in SUBSET FD : Sweep(R) \/ Hup(R)
        \/ Lose

Spec == Init /\ [][Next]_vars

-----------------------------------------------------------------------------
\* C07: a request the application holds names an existing entry, and that entry is the connection
\* of the client that sent the request
TokenOK == \A f \in FD : \A c \in CL : tok[f][c] > 0 => (st[f] # "none" /\ peer[f] = c)
\* what makes it inductive: an entry counts at least the requests held for it
CountOK == \A f \in FD : st[f] # "none" => infl[f] >= tok[f][peer[f]]
\* C10
CapOK == Cardinality(Open) <= MaxConn

Inv == TypeOK /\ TokenOK /\ CountOK /\ CapOK

=============================================================================
