----------------------------- MODULE Gen_Write -----------------------------
(***************************************************************************)
(* Specification -> implementation direction for the write side (C06).     *)
(* MC_Write plus the history of public calls as a variable: under model    *)
(* checking every distinct history is a distinct state, so TLC enumerates  *)
(* EVERY sequence of at most HistMax calls (enqueue a response of abstract *)
(* length 1..MaxLen, try_write with every stream outcome, clear) and       *)
(* prints each with the result the specification predicts for every call.  *)
(* The harness replays them on the real HttpConnection: abstract lengths   *)
(* become real responses, "accept j of r" becomes a real short write that  *)
(* leaves at least r - j bytes, and the recorded trace is validated byte   *)
(* for byte by Trace_Conn.                                                 *)
(***************************************************************************)
EXTENDS MC_Write, Json

CONSTANT HistMax
VARIABLE hist
gvars == <<c, wire, owed, nenq, last, hist>>

Step(s) == hist' = Append(hist, s)
GInit == Init /\ hist = <<>>
GNext ==
    /\ Len(hist) < HistMax
    /\ \/ \E n \in 1..MaxLen : Enq(n) /\ Step([e |-> "enq", n |-> n])
       \/ \E o \in Outcomes :
            /\ PendingWrite(c) \/ o.k = "eintr"       \* with nothing pending every outcome is the same call
            /\ Write(o)
            /\ Step([e |-> "write", k |-> o.k, j |-> o.n, r |-> NextWriteLen(c), res |-> last'.res,
                     calls |-> last'.calls, sent |-> Len(wire') - Len(wire), pending |-> PendingWrite(c')])
       \/ /\ hist # <<>> /\ hist[Len(hist)].e # "clear"
          /\ Clear /\ Step([e |-> "clear"])
GSpec == GInit /\ [][GNext]_gvars

\* every history of at most HistMax calls is a prefix of a printed one
Emit == Len(hist) = HistMax => PrintT("REPLAY " \o ToJson(hist))
=============================================================================
