SPECIFICATION Spec
CONSTANTS
  BUF = 32
  MaxLines = 4
  LimitN = 5
  MaxFds = 2
  DeferPop = TRUE
  Guided = TRUE
  TSet = {1, 2, 5, 8, 14, 21, 22}
INVARIANTS Refines StructOK FreshAfterError BodyBound ContinueRule FilesOrdered AttachRule ParsedQueueOK Witnesses
PROPERTIES EmptyReadInert
CHECK_DEADLOCK FALSE
