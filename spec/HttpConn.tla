----------------------------- MODULE HttpConn -----------------------------
(***************************************************************************)
(* The implementation-shaped connection machine: one pure operator per     *)
(* public call of HttpConnection, following src/connection.rs branch by    *)
(* branch with the same window/cursor arithmetic.  The operators take and  *)
(* return explicit records so that the same definitions serve exhaustive   *)
(* checking (MC_Conn), trace validation (Trace_Conn) and the server model  *)
(* (HttpServer embeds them unchanged).                                     *)
(*                                                                         *)
(* BUF is the receive window (1024 in the crate, 32 in the small build).   *)
(***************************************************************************)
EXTENDS HttpResp, TLC

CONSTANT BUF

NoReq == [some |-> FALSE, m |-> "GET", uri |-> <<>>, v |-> "1.1", h |-> DefaultHeaders]
NewReq(rl) == [some |-> TRUE, m |-> rl.m, uri |-> rl.uri, v |-> rl.v, h |-> DefaultHeaders]

\* A delivered request as the application sees it.
Delivered(p, body, hasBody, files) ==
    [m |-> p.m, uri |-> p.uri, v |-> p.v, h |-> p.h, body |-> body, hasBody |-> hasBody, files |-> files]

\* limit: normalized digit-value sequence (payload_max_size is a usize)
InitConn(limit) ==
    [ph |-> "RL", buf |-> <<>>, pending |-> NoReq, bodyVec |-> <<>>,
     parsed |-> <<>>, respQ |-> <<>>, respBuf |-> <<>>, files |-> <<>>, limit |-> limit]

\* The parser part of a fresh connection (what C11 demands after every parse error).
ParserPart(c) == [ph |-> c.ph, buf |-> c.buf, pending |-> c.pending, bodyVec |-> c.bodyVec, files |-> c.files]
FreshParser == [ph |-> "RL", buf |-> <<>>, pending |-> NoReq, bodyVec |-> <<>>, files |-> <<>>]
ResetParser(c) == [c EXCEPT !.ph = "RL", !.buf = <<>>, !.pending = NoReq, !.bodyVec = <<>>, !.files = <<>>]

\* results of a call
R_Ok == [k |-> "Ok", e |-> NoErr]
R_Closed == [k |-> "ConnectionClosed", e |-> NoErr]
R_ReadErr == [k |-> "StreamReadError", e |-> NoErr]
R_InvalidWrite == [k |-> "InvalidWrite", e |-> NoErr]
R_Parse(e) == [k |-> "ParseError", e |-> e]

\* outputs produced by one read, in order (C13 needs the interleaving of the two kinds)
OutReq(r) == [k |-> "req", r |-> r, v |-> r.v]
OutCont(v) == [k |-> "cont", r |-> Delivered(NoReq, <<>>, FALSE, <<>>), v |-> v]

Done(c, outs) == [c |-> c, outs |-> outs, res |-> R_Ok]
\* DESIGN 7(1): a parse error resets the parser part; requests completed earlier in the
\* same read stay queued (the server discards them: DiscardOnError), and the rest of the
\* read is dropped (TrailingDropped).
Fail(c, outs, e) == [c |-> ResetParser(c), outs |-> outs, res |-> R_Parse(e)]

Deliver(c, body, hasBody) ==
    [c EXCEPT !.ph = "RL", !.pending = NoReq, !.bodyVec = <<>>, !.files = <<>>,
              !.parsed = Append(@, Delivered(c.pending, body, hasBody, c.files))]

(***************************************************************************)
(* try_read after the receive: w = buf \o chunk is the window, st the      *)
(* number of bytes of it already consumed (line_start_index).              *)
(***************************************************************************)
RECURSIVE Loop(_, _, _, _)
Loop(c, w, st, outs) ==
  LET n == Len(w) IN
  CASE c.ph = "RL" ->
        LET p == FindCRLF(w, st + 1, n) IN
        IF p # 0 THEN
            LET rl == ParseRequestLine(Slice(w, st + 1, p - 1)) IN
            IF rl.ok THEN Loop([c EXCEPT !.ph = "HD", !.pending = NewReq(rl)], w, p + 1, outs)
            ELSE Fail(c, outs, rl.err)
        ELSE IF n = BUF /\ st = 0 THEN Fail(c, outs, E_InvalidRequest)         \* line too long
        ELSE Done([c EXCEPT !.buf = Slice(w, st + 1, n)], outs)                \* shift_buffer_left
    [] c.ph = "HD" ->
        LET p == FindCRLF(w, st + 1, n) IN
        IF p = st + 1 THEN                                                     \* CRLF at line start
            LET cl == c.pending.h.cl IN
            IF cl = <<0>> THEN
                LET d == Deliver(c, <<>>, FALSE) IN
                Loop(d, w, st + 2, Append(outs, OutReq(d.parsed[Len(d.parsed)])))
            ELSE IF DigLess(c.limit, cl) THEN Fail(c, outs, E_SizeLimit(c.limit, cl))
            ELSE IF c.pending.h.expect
                 THEN Loop([c EXCEPT !.ph = "BD", !.respQ = Append(@, Ser100(c.pending.v))],
                           w, st + 2, Append(outs, OutCont(c.pending.v)))
                 ELSE Loop([c EXCEPT !.ph = "BD"], w, st + 2, outs)
        ELSE IF p # 0 THEN
            LET r == ParseHeaderLine(c.pending.h, Slice(w, st + 1, p - 1)) IN
            IF r.res = "fatal" THEN Fail(c, outs, r.err)
            ELSE Loop([c EXCEPT !.pending.h = r.h], w, p + 1, outs)
        ELSE IF st = 0 /\ n = BUF THEN Fail(c, outs, E_HSize(Lossy(w)))        \* line too long (the text is the lossy rendering of the window)
        ELSE Done([c EXCEPT !.buf = Slice(w, st + 1, n)], outs)
    [] c.ph = "BD" ->
        LET avail == n - st
            held == Len(c.bodyVec) IN
        IF DigGtNat(c.pending.h.cl, held + avail)                              \* strict, as in the code
        THEN Done([c EXCEPT !.bodyVec = @ \o Slice(w, st + 1, n), !.buf = <<>>], outs)
        ELSE LET rem == DigitsNat(c.pending.h.cl) - held
                 d == Deliver(c, c.bodyVec \o Slice(w, st + 1, st + rem), TRUE) IN
             Loop(d, w, st + rem, Append(outs, OutReq(d.parsed[Len(d.parsed)])))

\* One try_read that received chunk (1..BUF-Len(buf) bytes) and descriptors fds.
TryRead(c, chunk, fds) ==
    IF Len(c.buf) >= BUF THEN Assert(FALSE, "read_cursor >= BUFFER_SIZE is unreachable")
    ELSE IF Len(chunk) = 0 \/ Len(chunk) > BUF - Len(c.buf)
         THEN Assert(FALSE, "chunk does not fit the window")
    ELSE Loop([c EXCEPT !.files = @ \o fds], c.buf \o chunk, 0, <<>>)

\* try_read when recvmsg returned 0 bytes: descriptors are kept, nothing else changes.
TryReadEof(c, fds) == [c |-> [c EXCEPT !.files = @ \o fds], outs |-> <<>>, res |-> R_Closed]
\* try_read when recvmsg failed (EAGAIN, EINTR, ...): nothing changes.
TryReadErr(c) == [c |-> c, outs |-> <<>>, res |-> R_ReadErr]

PopParsed(c) == [c EXCEPT !.parsed = Tail(@)]
PopAll(c) == [c EXCEPT !.parsed = <<>>]

(***************************************************************************)
(* Write side (C06).  Responses are byte strings once enqueued.            *)
(* outcome: [k |-> "accept", n |-> bytes] | "zero" | "eintr" | "error"     *)
(***************************************************************************)
Enqueue(c, ser) == [c EXCEPT !.respQ = Append(@, ser)]
PendingWrite(c) == c.respBuf # <<>> \/ c.respQ # <<>>
PendingBytes(c) == LET RECURSIVE Cat(_)
                       Cat(q) == IF q = <<>> THEN <<>> ELSE Head(q) \o Cat(Tail(q))
                   IN c.respBuf \o Cat(c.respQ)
ClearWrite(c) == [c EXCEPT !.respQ = <<>>, !.respBuf = <<>>]

\* [c, res, calls (write calls made on the stream), sent (bytes the stream took)]
TryWrite(c, o) ==
    IF ~PendingWrite(c) THEN [c |-> c, res |-> R_InvalidWrite, calls |-> 0, sent |-> <<>>]
    ELSE
    LET c1 == IF c.respBuf = <<>> THEN [c EXCEPT !.respBuf = Head(c.respQ), !.respQ = Tail(c.respQ)] ELSE c
        len == Len(c1.respBuf)
    IN CASE o.k = "accept" ->
              IF o.n < 1 \/ o.n > len THEN Assert(FALSE, "stream accepted more than offered")
              ELSE [c |-> [c1 EXCEPT !.respBuf = Slice(@, o.n + 1, len)], res |-> R_Ok,
                    calls |-> 1, sent |-> Slice(c1.respBuf, 1, o.n)]
         [] o.k = "eintr" -> [c |-> c1, res |-> R_Ok, calls |-> 1, sent |-> <<>>]
         [] o.k \in {"zero", "error"} ->
              [c |-> ClearWrite(c1), res |-> R_Closed, calls |-> 1, sent |-> <<>>]

\* Offered length of the next write (what the stream will be asked to take).
NextWriteLen(c) == IF c.respBuf # <<>> THEN Len(c.respBuf)
                   ELSE IF c.respQ # <<>> THEN Len(Head(c.respQ)) ELSE 0

(***************************************************************************)
(* Structural invariants of a connection record (C03).                     *)
(***************************************************************************)
CursorOK(c) ==
    /\ Len(c.buf) < BUF
    /\ c.ph \in {"RL", "HD", "BD"}
    /\ (c.ph = "RL") = ~c.pending.some
    /\ c.ph = "BD" => /\ c.buf = <<>>
                      /\ c.pending.h.cl # <<0>>
                      /\ DigGtNat(c.pending.h.cl, Len(c.bodyVec))
    /\ c.ph # "BD" => c.bodyVec = <<>>
\* while the limit is not changed under a request: a body being received was admitted under the limit
BodyAdmitted(c) == c.ph = "BD" => DigLeq(c.pending.h.cl, c.limit)

=============================================================================
