SPECIFICATION GSpec
CONSTANTS
  BUF = 32
  MaxEnq = 3
  MaxLen = 2
  HistMax = 6
INVARIANTS Emit PrefixOK PendingOK FailureDiscards
CHECK_DEADLOCK FALSE
