------------------------------ MODULE MC_Resp ------------------------------
(***************************************************************************)
(* The response builder as a state machine (C05): from Response::new with  *)
(* every version and status, every sequence of at most MaxOps public       *)
(* setter calls (bodies from an adversarial set).  In every reachable      *)
(* state the serialization has the documented shape, Content-Length obeys  *)
(* its rule, and an independent reader that knows only the wire format     *)
(* recovers the response from its bytes followed by another response.      *)
(***************************************************************************)
EXTENDS HttpResp, TLC

CONSTANT MaxOps

VARIABLES r, nops, lastOp, explicitCl
vars == <<r, nops, lastOp, explicitCl>>

Bodies == {<<>>, <<97, 98>>, <<13, 10, 13, 10>>, L_HTTP11 \o <<32, 50, 48, 48, 32, 13, 10>>, <<128, 255, 0>>}

Init == /\ \E v \in Versions, code \in StatusCodes : r = NewResp(v, code)
        /\ nops = 0 /\ lastOp = "new" /\ explicitCl = FALSE

Op(name, rr) == /\ nops < MaxOps /\ r' = rr /\ nops' = nops + 1 /\ lastOp' = name
Next ==
    \/ \E b \in Bodies : Op("body", SetBody(r, b)) /\ explicitCl' = FALSE
    \/ \E m \in {"text", "json"} : Op("ctype", SetContentType(r, m)) /\ UNCHANGED explicitCl
    \/ Op("depr", SetDeprecation(r)) /\ UNCHANGED explicitCl
    \/ Op("enc", SetEncoding(r)) /\ UNCHANGED explicitCl
    \/ \E s \in {<<83>>, <<>>} : Op("server", SetServer(r, s)) /\ UNCHANGED explicitCl
    \/ \E ms \in {<<>>, <<"GET">>, <<"GET", "PUT">>} : Op("allow", SetAllow(r, ms)) /\ UNCHANGED explicitCl
    \/ \E m \in {"PATCH"} : Op("allow1", AllowMethod(r, m)) /\ UNCHANGED explicitCl
    \/ \E has \in BOOLEAN : Op("cl", SetContentLength(r, has, 7)) /\ explicitCl' = TRUE
Spec == Init /\ [][Next]_vars

BodyOf(x) == IF x.hasBody THEN x.body ELSE <<>>
Ser == SerializeResp(r)
\* the length header tells the truth about the body (always, unless the length was set by hand)
Consistent == r.hasCl /\ r.cl = Len(BodyOf(r))

\* Content-Length: present for every status but 100/204 unless removed by hand; equals the body after set_body
ClRule ==
    /\ ~explicitCl => (r.hasCl <=> (r.code \notin {100, 204} \/ r.hasBody))
    /\ ~explicitCl => r.cl = Len(BodyOf(r))
    /\ lastOp = "body" => Consistent

\* line order and the conditional entity block
Shape ==
    LET rd == ReadOne(Ser \o (IF Consistent THEN <<>> ELSE <<>>), 1)
        hl == HeaderLinesFrom(Ser, FindCRLF(Ser, 1, Len(Ser)) + 2, <<>>)
        names == [i \in 1..Len(hl.lines) |-> Slice(hl.lines[i], 1, FindByte(hl.lines[i], COLON, 1, Len(hl.lines[i])) - 1)]
        expected == <<L_R_SERVER, <<67, 111, 110, 110, 101, 99, 116, 105, 111, 110>>>>
                    \o (IF Len(r.allow) > 0 THEN <<<<65, 108, 108, 111, 119>>>> ELSE <<>>)
                    \o (IF r.depr THEN <<<<68, 101, 112, 114, 101, 99, 97, 116, 105, 111, 110>>>> ELSE <<>>)
                    \o (IF r.hasCl THEN <<L_R_CT, L_R_CL>> \o (IF r.enc THEN <<L_R_AE>> ELSE <<>>) ELSE <<>>)
    IN /\ IsPrefixOf(VersionRaw(r.v) \o <<SP>> \o IntAscii(r.code) \o <<SP, CR, LF>>, Ser)
       /\ hl.ok /\ names = expected
       /\ Len(IntAscii(r.code)) = 3

\* an independent reader recovers status, version and body, and is positioned exactly after the
\* response, whatever follows it on a keep-alive stream
Follow == SerializeResp(SetBody(NewResp("1.0", 404), <<120>>))
SelfDelimiting ==
    (Consistent \/ (~r.hasCl /\ BodyOf(r) = <<>>)) =>
        LET rd == ReadOne(Ser \o Follow, 1) IN
        /\ rd.ok /\ rd.code = r.code /\ rd.v = r.v /\ rd.body = BodyOf(r) /\ rd.next = Len(Ser) + 1
        /\ LET rd2 == ReadOne(Ser \o Follow, rd.next) IN rd2.ok /\ rd2.code = 404 /\ rd2.body = <<120>>

WitnessNames == <<"no_length_100", "body_after_204", "crlf_body", "length_removed", "allow_two", "encoding_with_length">>
ASSUME \A i \in 1..Len(WitnessNames) : TLCSet(i, FALSE)
Witness(i, cond) == IF cond /\ ~TLCGet(i) THEN TLCSet(i, TRUE) /\ PrintT(<<"WITNESS", WitnessNames[i]>>) ELSE TRUE
Witnesses ==
    /\ Witness(1, r.code = 100 /\ ~r.hasCl)
    /\ Witness(2, r.code = 204 /\ r.hasBody /\ r.hasCl)
    /\ Witness(3, r.hasBody /\ r.body = <<13, 10, 13, 10>>)
    /\ Witness(4, explicitCl /\ ~r.hasCl /\ r.code = 200)
    /\ Witness(5, Len(r.allow) >= 2)
    /\ Witness(6, r.enc /\ r.hasCl)

=============================================================================
