------------------------------- MODULE Router -------------------------------
(***************************************************************************)
(* HttpRoutes: a table from (method, prefix + path) to a handler; first    *)
(* registration wins; dispatch on (method, absolute path of the URI);      *)
(* every response is stamped with the server identity and the JSON type.   *)
(* C17.  (The crate keys the table by the string METHOD ":" prefix path;   *)
(* methods contain no ':', so that key determines the pair.)               *)
(***************************************************************************)
EXTENDS HttpResp

\* routes: sequence of [m, path, code]; handler id = position in the sequence
Key(prefix, rt) == <<rt.m, prefix \o rt.path>>
\* result of add_route for the i-th registration
Added(prefix, routes, i) == \A j \in 1..(i - 1) : Key(prefix, routes[j]) # Key(prefix, routes[i])
\* handler in effect for a key: the first registration
HandlerFor(prefix, routes, key) ==
    LET hits == {i \in 1..Len(routes) : Key(prefix, routes[i]) = key}
    IN IF hits = {} THEN 0 ELSE MinOf(hits)

HandlerResp(routes, id) ==
    SetBody(NewResp("1.1", routes[id].code), <<104>> \o DigitsAscii(NatDigits(id)))     \* "h<id>"

\* [invoked (sequence of handler ids), ser (bytes of the response)]
Dispatch(serverId, prefix, routes, m, uri) ==
    LET id == HandlerFor(prefix, routes, <<m, AbsPath(uri)>>)
        base == IF id = 0 THEN NewResp("1.1", 404) ELSE HandlerResp(routes, id)
        stamped == SetContentType(SetServer(base, serverId), "json")
    IN [invoked |-> IF id = 0 THEN <<>> ELSE <<id>>, ser |-> SerializeResp(stamped)]

=============================================================================
