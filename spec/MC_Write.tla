----------------------------- MODULE MC_Write -----------------------------
(***************************************************************************)
(* Exhaustive model of the write side of a connection (C06): any           *)
(* interleaving of enqueues and write attempts, every stream outcome per   *)
(* write (accept k bytes for every 1 <= k <= offered, EINTR, zero, error). *)
(* Responses are opaque byte strings with distinguishable bytes.           *)
(***************************************************************************)
EXTENDS HttpConn

CONSTANTS MaxEnq, MaxLen

VARIABLES c, wire, owed, nenq, last
vars == <<c, wire, owed, nenq, last>>

\* the k-th response of length n: bytes k*10+1 .. k*10+n (all distinct across responses)
RespBytes(k, n) == [i \in 1..n |-> k * 10 + i]

Init == /\ c = InitConn(<<5>>) /\ wire = <<>> /\ owed = <<>> /\ nenq = 0
        /\ last = [res |-> "none", calls |-> 0]

Enq(n) == /\ nenq < MaxEnq
          /\ c' = Enqueue(c, RespBytes(nenq + 1, n))
          /\ owed' = owed \o RespBytes(nenq + 1, n)
          /\ nenq' = nenq + 1
          /\ last' = [res |-> "none", calls |-> 0]
          /\ UNCHANGED wire

Outcomes == {[k |-> "accept", n |-> n] : n \in 1..MaxLen} \cup {[k |-> "eintr", n |-> 0], [k |-> "zero", n |-> 0], [k |-> "error", n |-> 0]}

Write(o) == /\ (o.k = "accept" => o.n <= NextWriteLen(c)) \/ ~PendingWrite(c)
            /\ LET w == TryWrite(c, o) IN
               /\ c' = w.c
               /\ wire' = wire \o w.sent
               /\ owed' = IF w.res.k = "ConnectionClosed" THEN wire ELSE owed     \* failure discards what was pending
               /\ last' = [res |-> w.res.k, calls |-> w.calls]
            /\ UNCHANGED nenq

\* clear_write_buffer (public; the server calls it on a hang-up): everything pending is discarded
Clear == /\ c' = ClearWrite(c)
         /\ owed' = wire
         /\ last' = [res |-> "cleared", calls |-> 0]
         /\ UNCHANGED <<wire, nenq>>

Next == (\E n \in 1..MaxLen : Enq(n)) \/ (\E o \in Outcomes : Write(o)) \/ Clear
Spec == Init /\ [][Next]_vars

\* nothing lost, duplicated or reordered, at any time
PrefixOK == wire \o PendingBytes(c) = owed
\* pending output is reported exactly while some byte remains unsent
PendingOK == PendingWrite(c) <=> (PendingBytes(c) # <<>>)
\* a failed write leaves nothing pending; a write with nothing pending does not touch the stream
FailureDiscards == last.res = "ConnectionClosed" => ~PendingWrite(c)
InvalidWriteInert == last.res = "InvalidWrite" => last.calls = 0
OneWritePerCall == last.calls <= 1
\* EINTR changes nothing that is pending
EintrInert == [][\A o \in Outcomes : (o.k = "eintr" /\ Write(o)) => (PendingBytes(c') = PendingBytes(c) /\ wire' = wire)]_vars

\* after clear_write_buffer nothing is pending and the next response starts on a response boundary
ClearOK == [][Clear => (~PendingWrite(c') /\ PendingBytes(c') = <<>>)]_vars

WitnessNames == <<"short_write", "two_in_flight", "failure_with_queue", "invalid_write", "all_written", "cleared_mid_response">>
ASSUME \A i \in 1..Len(WitnessNames) : TLCSet(i, FALSE)
Witness(i, cond) == IF cond /\ ~TLCGet(i) THEN TLCSet(i, TRUE) /\ PrintT(<<"WITNESS", WitnessNames[i]>>) ELSE TRUE
Witnesses ==
    /\ Witness(1, c.respBuf # <<>> /\ wire # <<>>)
    /\ Witness(2, c.respBuf # <<>> /\ Len(c.respQ) >= 1)
    /\ Witness(3, last.res = "ConnectionClosed" /\ nenq >= 2 /\ Len(wire) < Len(owed) + 1)
    /\ Witness(4, last.res = "InvalidWrite")
    /\ Witness(5, nenq = MaxEnq /\ ~PendingWrite(c) /\ wire = owed /\ wire # <<>>)
    /\ Witness(6, last.res = "cleared" /\ wire # <<>> /\ nenq >= 2)

=============================================================================
