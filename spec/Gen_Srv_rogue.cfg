SPECIFICATION GSpec
CONSTANTS
  BUF = 32
  Clients = {1, 2, 3, 4}
  Fds = {1, 2, 3}
  MaxConn = 3
  Rogue = {2, 3, 4}
  Programs = {1, 2, 3, 4, 5, 6, 7, 8, 9, 10}
  SndCap = 100000
  EventsCap = 5
  LimitN = 20
  HasKill = TRUE
  AllowKill = FALSE
  AllowFds = FALSE
  AllowFlush = TRUE
  EmitAtBound = FALSE
  Pin1 = 0
  Pin2 = 0
  MaxMid = 0
  HistMax = 60
  AtomicPoll = TRUE
INVARIANTS Emit PollOK TokensOK InterestsOK
CHECK_DEADLOCK FALSE
