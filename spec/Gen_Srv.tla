------------------------------ MODULE Gen_Srv ------------------------------
(***************************************************************************)
(* Specification -> implementation direction for the server.  MC_Server    *)
(* (atomic polls) plus a history variable of harness steps; every          *)
(* behaviour that comes to rest is printed as one JSON line and replayed   *)
(* by `mh srv-replay` on the real server over real sockets; the recorded   *)
(* trace is then validated by Trace_Srv.  Requests use the harness's URI   *)
(* scheme (/c<client>/<n>), so the real application finds the requests.    *)
(***************************************************************************)
EXTENDS MC_Server, Json

CONSTANTS HistMax,     \* bound on the number of harness steps of a history
          EmitAtBound, \* TRUE: histories cut by the bound are printed too
          Pin1, Pin2,  \* programs of clients 1 and 2 (0: any program of Programs)
          MaxMid       \* with AtomicPoll = FALSE: client actions INSIDE requests() calls per history
VARIABLE hist
gvars == <<S, mode, batch, todo, kAtStart, hist>>

Step(s) == hist' = Append(hist, s)
\* a client action inside a requests() call: it becomes part of the poll step (the last step of the
\* history), placed before the batch element that is handled next (the harness performs it from the
\* at_event hook at exactly that point)
RECURSIVE CountMid(_)
CountMid(h) == IF h = <<>> THEN 0 ELSE (IF Head(h).e = "poll" THEN Len(Head(h).mid) ELSE 0) + CountMid(Tail(h))
Handled == hist[Len(hist)].n - Len(batch)
Mid(op, c, bytes) == hist' = [hist EXCEPT ![Len(hist)].mid = Append(@, [at |-> Handled, op |-> op, c |-> c, bytes |-> bytes])]
Quiescent == /\ mode = "app" /\ Ready = {} /\ S.outst = {}
             /\ \A c \in Clients : todo[c] = <<>> \/ S.cl[c].st # "open" \/ S.cl[c].wr \/ S.cl[c].srvClosed
             /\ \A c \in Clients : S.cl[c].st # "idle"

GInit == /\ Init /\ hist = <<>>
         /\ Pin1 # 0 => todo[1] = Program(1, Pin1)
         /\ Pin2 # 0 => todo[2] = Program(2, Pin2)
GNext ==
    /\ ~Quiescent
    /\ \/ /\ Len(hist) < HistMax /\ mode = "app"
          /\ \/ \E c \in Clients : \/ Connect(c) /\ Step([e |-> "connect", c |-> c])
                                   \/ Send(c) /\ Step([e |-> "send", c |-> c, bytes |-> Head(todo[c]),
                                                         \* the descriptors the model chose to attach to this message
                                                         fds |-> IF Len(S'.c2sfd[c]) > Len(S.c2sfd[c]) THEN S'.c2sfd[c][Len(S'.c2sfd[c])].fds ELSE <<>>])
                                   \/ Recv(c) /\ Step([e |-> "recv", c |-> c])
                                   \/ ShutWr(c) /\ Step([e |-> "shutwr", c |-> c])
                                   \/ ShutRd(c) /\ Step([e |-> "shutrd", c |-> c])
                                   \/ Close(c) /\ Step([e |-> "close", c |-> c])
             \/ \E t \in S.outst : AppRespond(t) /\ Step([e |-> "respond", c |-> t.owner, tag |-> t.tag])
             \/ AppFlush /\ Step([e |-> "flush"])
             \/ AppKill /\ Step([e |-> "kill"])
             \/ PollStart /\ Step([e |-> "poll", n |-> Len(batch'), mid |-> <<>>])
       \* clients moving between two sub-steps of a poll (only with AtomicPoll = FALSE)
       \/ /\ mode = "poll" /\ batch # <<>> /\ CountMid(hist) < MaxMid
          /\ \E c \in Clients :
                \/ Send(c) /\ Mid("send", c, Head(todo[c]))
                \/ ShutWr(c) /\ Mid("shutwr", c, <<>>)
                \/ ShutRd(c) /\ Mid("shutrd", c, <<>>)
                \/ Close(c) /\ Mid("close", c, <<>>)
       \* the sub-steps of a poll are not harness steps: a poll that was started is always completed
       \/ (PollStep \/ PollEnd) /\ UNCHANGED hist
GSpec == GInit /\ [][GNext]_gvars

\* a history is printed when it comes to rest, or when it reaches the bound (then every history of at
\* most HistMax steps is a prefix of a printed one: exhaustive to that depth under model checking)
Emit == (hist # <<>> /\ (Quiescent \/ (Len(hist) = HistMax /\ mode = "app" /\ EmitAtBound))) => PrintT("REPLAY " \o ToJson(hist))

=============================================================================
