SPECIFICATION Spec
CONSTANTS
  BUF = 32
  Clients = {1, 2}
  Fds = {1, 2}
  MaxConn = 2
  Rogue = {2}
  Programs = {1, 4}
  SndCap = 150
  EventsCap = 4
  LimitN = 5
  HasKill = TRUE
  AllowKill = TRUE
  AllowFds = FALSE
  AllowFlush = FALSE
  AtomicPoll = TRUE
INVARIANTS PollOK CapacityOK TokensOK InterestsOK NoStall QuietNotReady ReleasableReady Refused503 KillWins KillReady Witnesses
PROPERTY AbsRefines IntrRefines
CHECK_DEADLOCK FALSE
