SPECIFICATION Spec
CONSTANTS
  BUF = 32
  MaxEnq = 4
  MaxLen = 3
INVARIANTS PrefixOK PendingOK FailureDiscards InvalidWriteInert OneWritePerCall Witnesses
PROPERTIES EintrInert ClearOK
CHECK_DEADLOCK FALSE
