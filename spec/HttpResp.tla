----------------------------- MODULE HttpResp -----------------------------
(***************************************************************************)
(* The response builder (state = the fields the public setters touch),     *)
(* its serialization, and an independent reader that knows only the wire   *)
(* format.  C05.                                                           *)
(***************************************************************************)
EXTENDS HttpLex

StatusCodes == {100, 200, 204, 400, 401, 404, 405, 413, 500, 501, 503}
CRLF == <<CR, LF>>

\* Response::new
NewResp(v, code) ==
    [v |-> v, code |-> code, server |-> L_R_DEFAULT_SERVER, allow |-> <<>>, depr |-> FALSE,
     hasCl |-> ~(code \in {100, 204}), cl |-> 0, ctype |-> "json", enc |-> FALSE,
     hasBody |-> FALSE, body |-> <<>>]

\* the public setters
SetBody(r, b) == [r EXCEPT !.hasBody = TRUE, !.body = b, !.hasCl = TRUE, !.cl = Len(b)]
SetContentLength(r, has, n) == [r EXCEPT !.hasCl = has, !.cl = IF has THEN n ELSE 0]
SetContentType(r, m) == [r EXCEPT !.ctype = m]
SetDeprecation(r) == [r EXCEPT !.depr = TRUE]
SetEncoding(r) == [r EXCEPT !.enc = TRUE]
SetServer(r, s) == [r EXCEPT !.server = s]
SetAllow(r, ms) == [r EXCEPT !.allow = ms]
AllowMethod(r, m) == [r EXCEPT !.allow = Append(@, m)]

IntAscii(n) == IF n < 0 THEN <<45>> \o DigitsAscii(NatDigits(0 - n)) ELSE DigitsAscii(NatDigits(n))

RECURSIVE JoinMethods(_)
JoinMethods(ms) == IF Len(ms) = 0 THEN <<>>
                   ELSE IF Len(ms) = 1 THEN MethodRaw(ms[1])
                   ELSE MethodRaw(ms[1]) \o L_R_COMMA_SP \o JoinMethods(Tail(ms))

StatusLine(r) == VersionRaw(r.v) \o <<SP>> \o IntAscii(r.code) \o <<SP>> \o CRLF

HeaderBlock(r) ==
    L_R_SERVER \o <<COLON, SP>> \o r.server \o CRLF
    \o L_R_CONN_KEEPALIVE \o CRLF
    \o (IF Len(r.allow) = 0 THEN <<>> ELSE L_R_ALLOW \o JoinMethods(r.allow) \o CRLF)
    \o (IF r.depr THEN L_R_DEPRECATION \o CRLF ELSE <<>>)
    \o (IF r.hasCl
        THEN L_R_CT \o <<COLON, SP>> \o MediaRaw(r.ctype) \o CRLF
             \o L_R_CL \o <<COLON, SP>> \o IntAscii(r.cl) \o CRLF
             \o (IF r.enc THEN L_R_AE \o <<COLON, SP>> \o L_IDENTITY \o CRLF ELSE <<>>)
        ELSE <<>>)
    \o CRLF

SerializeResp(r) == StatusLine(r) \o HeaderBlock(r) \o (IF r.hasBody THEN r.body ELSE <<>>)

\* Interim response queued by the connection
Ser100(v) == SerializeResp(NewResp(v, 100))

(***************************************************************************)
(* Independent reader: status line, header lines up to the blank line,     *)
(* Content-Length bytes of body if that header is present, else none.      *)
(* Accepts a status line with or without the SP after the code (the fixed  *)
(* 503 message has none).  Returns [ok, v, code, lines, body, next].       *)
(***************************************************************************)
RECURSIVE HeaderLinesFrom(_, _, _)
\* collects header lines starting at position i until the blank line;
\* result [ok, lines, next] with next = position after the blank line
HeaderLinesFrom(s, i, acc) ==
    LET p == FindCRLF(s, i, Len(s)) IN
    IF p = 0 THEN [ok |-> FALSE, lines |-> acc, next |-> i]
    ELSE IF p = i THEN [ok |-> TRUE, lines |-> acc, next |-> p + 2]
    ELSE HeaderLinesFrom(s, p + 2, Append(acc, Slice(s, i, p - 1)))

HeaderValue(lines, name) ==   \* value bytes after "name: " of the last line with that name, or <<>>
    LET pre == name \o <<COLON, SP>>
        hit == {i \in 1..Len(lines) : IsPrefixOf(pre, lines[i])}
    IN IF hit = {} THEN [found |-> FALSE, v |-> <<>>]
       ELSE [found |-> TRUE, v |-> From(lines[MaxOf(hit)], Len(pre) + 1)]

\* The head of a response alone (status line and header lines through the blank line): [ok, code, n, next]
\* with n = the announced body length (0 if none is announced), next = position after the blank line.
ReadHead(s, from) ==
    LET bad == [ok |-> FALSE, code |-> 0, n |-> 0, next |-> from]
        p == FindCRLF(s, from, Len(s))
    IN IF p = 0 THEN bad
       ELSE
       LET sl == Slice(s, from, p - 1)
           v == ParseVersion(Slice(sl, 1, 8))
           codeOk == Len(sl) >= 12 /\ sl[9] = SP /\ \A i \in 10..12 : IsDigit(sl[i])
                     /\ (Len(sl) = 12 \/ (Len(sl) = 13 /\ sl[13] = SP))
       IN IF v = "bad" \/ ~codeOk THEN bad
          ELSE
          LET hl == HeaderLinesFrom(s, p + 2, <<>>)
          IN IF ~hl.ok THEN bad
             ELSE
             LET clv == HeaderValue(hl.lines, L_R_CL)
                 pu == ParseU32(clv.v)
             IN IF clv.found /\ (~pu.ok \/ Len(pu.d) > 9) THEN bad
                ELSE [ok |-> TRUE, code |-> (sl[10] - 48) * 100 + (sl[11] - 48) * 10 + (sl[12] - 48),
                      n |-> IF clv.found THEN DigitsNat(pu.d) ELSE 0, next |-> hl.next]

ReadOne(s, from) ==
    LET bad == [ok |-> FALSE, v |-> "bad", code |-> 0, lines |-> <<>>, body |-> <<>>, next |-> from]
        p == FindCRLF(s, from, Len(s))
    IN IF p = 0 THEN bad
       ELSE
       LET sl == Slice(s, from, p - 1)
           v == ParseVersion(Slice(sl, 1, 8))
           codeOk == Len(sl) >= 12 /\ sl[9] = SP /\ \A i \in 10..12 : IsDigit(sl[i])
                     /\ (Len(sl) = 12 \/ (Len(sl) = 13 /\ sl[13] = SP))
       IN IF v = "bad" \/ ~codeOk THEN bad
          ELSE
          LET code == (sl[10] - 48) * 100 + (sl[11] - 48) * 10 + (sl[12] - 48)
              hl == HeaderLinesFrom(s, p + 2, <<>>)
          IN IF ~hl.ok THEN bad
             ELSE
             LET clv == HeaderValue(hl.lines, L_R_CL)
                 pu == ParseU32(clv.v)
                 n == IF clv.found /\ pu.ok /\ Len(pu.d) <= 9 THEN DigitsNat(pu.d) ELSE 0
             IN IF clv.found /\ ~pu.ok THEN bad
                ELSE IF hl.next + n - 1 > Len(s) THEN bad
                ELSE [ok |-> TRUE, v |-> v, code |-> code, lines |-> hl.lines,
                      body |-> Slice(s, hl.next, hl.next + n - 1), next |-> hl.next + n]

=============================================================================
