SPECIFICATION Spec
CONSTANTS
  BUF = 64
  MaxLines = 3
  UriLen = 5
INVARIANTS CaseOK Witnesses
CHECK_DEADLOCK FALSE
