SPECIFICATION Spec
CONSTANTS
  BUF = 32
  Clients = {1, 2}
  Fds = {1, 2}
  MaxConn = 2
  Rogue = {2}
  Programs = {1, 5}
  SndCap = 150
  EventsCap = 4
  LimitN = 5
  HasKill = TRUE
  AllowKill = FALSE
  AllowFds = FALSE
  AllowFlush = FALSE
  AtomicPoll = FALSE
INVARIANTS PollOK CapacityOK TokensOK InterestsOK NoStall QuietNotReady ReleasableReady Refused503 KillWins KillReady Witnesses
PROPERTY AbsRefines IntrRefines
CHECK_DEADLOCK FALSE
