SPECIFICATION GSpec
CONSTANTS
  BUF = 32
  Clients = {1, 2}
  Fds = {1, 2}
  MaxConn = 2
  Rogue = {}
  Programs = {1}
  SndCap = 100000
  EventsCap = 4
  LimitN = 20
  HasKill = TRUE
  AllowKill = TRUE
  AllowFds = FALSE
  AllowFlush = FALSE
  EmitAtBound = TRUE
  Pin1 = 0
  Pin2 = 0
  MaxMid = 0
  HistMax = 12
  AtomicPoll = TRUE
INVARIANTS Emit PollOK TokensOK InterestsOK
CHECK_DEADLOCK FALSE
