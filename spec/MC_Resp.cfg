SPECIFICATION Spec
CONSTANTS
  MaxOps = 3
INVARIANTS ClRule Shape SelfDelimiting Witnesses
CHECK_DEADLOCK FALSE
