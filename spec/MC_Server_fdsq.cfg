SPECIFICATION Spec
CONSTANTS
  BUF = 32
  Clients = {1, 2}
  Fds = {1, 2}
  MaxConn = 2
  Rogue = {2}
  Programs = {2, 5}
  SndCap = 150
  EventsCap = 4
  LimitN = 5
  HasKill = FALSE
  AllowKill = FALSE
  AllowFds = TRUE
  AllowFlush = FALSE
  AtomicPoll = TRUE
INVARIANTS PollOK CapacityOK TokensOK InterestsOK FilesOK NoStall QuietNotReady Witnesses
PROPERTY AbsRefines IntrRefines
CHECK_DEADLOCK FALSE
