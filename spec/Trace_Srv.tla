----------------------------- MODULE Trace_Srv -----------------------------
(***************************************************************************)
(* Trace specification for histories of the real HttpServer over real Unix *)
(* sockets (harness: mh srv).  Every step of the single-threaded harness   *)
(* is one event, logged after the step returned, carrying `ready` = what   *)
(* poll(2) said about the server's epoll descriptor BEFORE the step.       *)
(*                                                                         *)
(* Closed loop: kernel choices (batch order, descriptor numbers chosen by  *)
(* accept, bytes accepted by a write) are taken from the log (hooks) and   *)
(* constrained only by the weak kernel axioms; the server's decisions are  *)
(* recomputed with the operators of HttpServer.  The first divergence of a *)
(* history is printed as one MISMATCH line with a `kind`; the rest of that *)
(* history is skipped (its state can no longer be trusted).  ./check maps  *)
(* the kind to the property whose projection it belongs to.                *)
(***************************************************************************)
EXTENDS HttpServer, Json, IOUtils

Rec == ndJsonDeserialize(IOEnv.TRACE)

VARIABLES l, S, hist, dead, lfd, kfd, nbad, nsteps,
          rx,        \* C07 (relational): per client, the state of a streaming reader of every byte it received
          supplied,  \* C07 (relational): per client, the tags of its requests in the order the application answered them
          \* C07 (relational, ServerAbs on the log alone -- keeps judging after the detailed model has diverged):
          bk,        \* clients waiting to be accepted, in connect order
          fdc,       \* descriptor number -> client whose connection the server accepted there (0: none)
          tok,       \* requests yielded and not yet answered: [c, tag, fd]
          cause      \* C09 (relational): clients that gave the server a reason to hang up on them (closed or shut down
                     \* a direction themselves, or were sent a response that may not fit their socket)
vars == <<l, S, hist, dead, lfd, kfd, nbad, nsteps, rx, supplied, bk, fdc, tok, cause>>
AbsSame == UNCHANGED <<bk, fdc, tok>>
CauseSame == UNCHANGED cause
RxSame == UNCHANGED <<rx, supplied, cause>> /\ AbsSame
RxInit == [hdr |-> <<>>, need |-> 0, tagbuf |-> <<>>, tags |-> <<>>, bad |-> FALSE, c503 |-> FALSE]

Init == /\ l = 1 /\ S = InitState(<<0>>, FALSE) /\ hist = 0 /\ dead = TRUE
        /\ lfd = 0 /\ kfd = 0 /\ nbad = 0 /\ nsteps = 0
        /\ rx = [c \in Clients |-> RxInit] /\ supplied = [c \in Clients |-> <<>>]
        /\ bk = <<>> /\ fdc = [f \in Fds |-> 0] /\ tok = {} /\ cause = {}

Ev(e) == l <= Len(Rec) /\ Rec[l].e = e /\ l' = l + 1

\* the kernel's verdict on writability is determinate only at the two ends
MustW(c) == Len(S.s2c[c]) <= 16384
MayW(c) == Len(S.s2c[c]) < 262144
MustReady == ReadySet(S, MustW)
MayReady == ReadySet(S, MayW)

Bad(kind, detail) ==
    /\ dead' = TRUE /\ nbad' = nbad + 1
    /\ PrintT("MISMATCH " \o ToJson([l |-> l, hist |-> hist, step |-> nsteps, kind |-> kind, detail |-> detail]))

\* readiness flag logged before the step
ReadyBad(ev) == IF MustReady # {} /\ ~ev.ready THEN "stall"
                ELSE IF ev.ready /\ MayReady = {} THEN "spin" ELSE ""

\* a step that changes the state to NS unless the readiness flag (or `pre`) already diverges
Step(ev, pre, NS) ==
    IF dead THEN UNCHANGED <<S, dead, nbad>>
    ELSE LET rb == ReadyBad(ev) IN
         IF rb # "" THEN Bad("ready:" \o rb, [must |-> MustReady, may |-> MayReady, logged |-> ev.ready]) /\ UNCHANGED S
         ELSE IF pre # "" THEN Bad(pre, [ev |-> ev]) /\ UNCHANGED S
         ELSE S' = NS /\ UNCHANGED <<dead, nbad>>

Common == /\ nsteps' = nsteps + 1 /\ UNCHANGED <<hist, lfd, kfd>>

-----------------------------------------------------------------------------
TReset == /\ Ev("reset")
          /\ Assert(Rec[l].maxconn = MaxConn /\ Rec[l].buf = BUF, "trace recorded with other constants")
          \* prekill: the eventfd was signalled before add_kill_switch registered it -- the signal counts
          /\ S' = [InitState(Rec[l].limit, Rec[l].kill) EXCEPT !.killed = ("prekill" \in DOMAIN Rec[l] /\ Rec[l].prekill)]
          /\ hist' = Rec[l].hist /\ dead' = FALSE /\ lfd' = Rec[l].lfd /\ kfd' = Rec[l].kfd
          /\ nsteps' = 0 /\ UNCHANGED nbad
          /\ rx' = [c \in Clients |-> RxInit] /\ supplied' = [c \in Clients |-> <<>>]
          /\ bk' = <<>> /\ fdc' = [f \in Fds |-> 0] /\ tok' = {} /\ cause' = {}

(***************************************************************************)
(* C07 judged on the implementation's own logs, independently of the model *)
(* state (also after a divergence): every application response a client    *)
(* received carries that client's own tag, at most once, in the order the   *)
(* application supplied the answers for that client.  Application responses *)
(* are recognised by their body "/c<client>/<n>" followed by '.' padding.   *)
(***************************************************************************)
\* Streaming reader of what one client receives (constant-size state, so responses of any size are
\* judged): hdr = bytes of the head not yet complete, need = body bytes still to come, tagbuf = the first
\* bytes of the current body, tags = tags of the complete application responses so far, bad = some byte
\* received does not belong to a well-formed response.
TagOf(body) == LET dots == {i \in 1..Len(body) : body[i] = 46}
               IN IF dots = {} THEN body ELSE Slice(body, 1, MinOf(dots) - 1)
IsAppBody(b) == Len(b) >= 4 /\ b[1] = 47 /\ b[2] = 99              \* "/c"
HttpPrefix == <<72, 84, 84, 80, 47, 49, 46>>                          \* "HTTP/1."
PrefixCompat(h) == \A i \in 1..Min2(Len(h), 7) : h[i] = HttpPrefix[i]
EndOfHead(h) == LET m == Min2(Len(h), 4096)
                    S4 == {i \in 1..(m - 3) : h[i] = CR /\ h[i + 1] = LF /\ h[i + 2] = CR /\ h[i + 3] = LF}
                IN IF S4 = {} THEN 0 ELSE MinOf(S4)
RxFinish(st) == [st EXCEPT !.tagbuf = <<>>, !.tags = IF IsAppBody(st.tagbuf) THEN Append(@, TagOf(st.tagbuf)) ELSE @]
RECURSIVE RxFeed(_, _)
RxFeed(st, b) ==
    IF b = <<>> \/ st.bad THEN st
    ELSE IF st.need > 0 THEN
        LET k == Min2(st.need, Len(b))
            room == 64 - Len(st.tagbuf)
            st1 == [st EXCEPT !.need = @ - k, !.tagbuf = IF room <= 0 THEN @ ELSE @ \o Slice(b, 1, Min2(k, room))]
        IN RxFeed(IF st1.need = 0 THEN RxFinish(st1) ELSE st1, Slice(b, k + 1, Len(b)))
    ELSE
        LET h == st.hdr \o b
            p == EndOfHead(h)
        IN IF p = 0 THEN (IF ~PrefixCompat(h) \/ Len(h) > 4096 THEN [st EXCEPT !.bad = TRUE] ELSE [st EXCEPT !.hdr = h])
           ELSE LET r == ReadHead(Slice(h, 1, p + 3), 1) IN
                IF ~r.ok THEN [st EXCEPT !.bad = TRUE]
                ELSE LET st1 == [st EXCEPT !.hdr = <<>>, !.need = r.n, !.tagbuf = <<>>, !.c503 = @ \/ r.code = 503] IN
                     RxFeed(IF r.n = 0 THEN RxFinish(st1) ELSE st1, Slice(h, p + 4, Len(h)))
OwnerDigits(tag) == LET sl == {i \in 3..Len(tag) : tag[i] = 47} IN IF sl = {} THEN <<>> ELSE Slice(tag, 3, MinOf(sl) - 1)
\* s is a subsequence of t without repetition (t has no repetition: tags are unique)
RECURSIVE IsSubseq(_, _)
IsSubseq(s, t) == IF s = <<>> THEN TRUE ELSE IF t = <<>> THEN FALSE
                  ELSE IF Head(s) = Head(t) THEN IsSubseq(Tail(s), Tail(t)) ELSE IsSubseq(s, Tail(t))
OwnBad(c) ==
    LET tags == rx[c].tags IN
    IF rx[c].bad THEN "own:not-a-response"
    ELSE IF \E i \in 1..Len(tags) : OwnerDigits(tags[i]) # DigitsAscii(NatDigits(c)) THEN "own:foreign-response"
    ELSE IF ~IsSubseq(tags, supplied[c]) THEN "own:duplicated-or-reordered"
    ELSE ""
TEndHist == /\ Ev("endhist") /\ UNCHANGED <<S, hist, lfd, kfd, nsteps, rx, supplied, dead, cause>> /\ AbsSame
            /\ LET badc == {c \in Clients : OwnBad(c) # ""} IN
               IF badc = {} THEN UNCHANGED nbad
               ELSE /\ nbad' = nbad + 1
                    /\ LET c == CHOOSE x \in badc : TRUE IN
                       PrintT("MISMATCH " \o ToJson([l |-> l, hist |-> hist, step |-> nsteps, kind |-> OwnBad(c),
                                                     detail |-> [c |-> c, supplied |-> supplied[c]]]))

TConnect == /\ Ev("connect") /\ Common /\ UNCHANGED <<rx, supplied, fdc, tok, cause>>
            /\ bk' = IF Rec[l].res = "ok" THEN Append(bk, Rec[l].c) ELSE bk
            /\ LET ev == Rec[l] IN
               Step(ev, IF ev.res # "ok" THEN "harness:connect-failed" ELSE "", CConnect(S, ev.c))

TSend == /\ Ev("send") /\ Common /\ RxSame
         /\ LET ev == Rec[l] IN Step(ev, "", CSendFds(S, ev.c, ev.bytes, ev.fds))

TRecv == /\ Ev("recv") /\ Common
         /\ rx' = [rx EXCEPT ![Rec[l].c] = RxFeed(@, Rec[l].bytes)] /\ UNCHANGED supplied /\ AbsSame /\ CauseSame
         \* C09, on the log alone: the server hangs up only on clients that gave it a reason (they closed or shut
         \* down a direction, could not take a large response, or were refused with the 503 message)
         /\ (Rec[l].state = "eof" /\ Rec[l].c \notin cause /\ ~rx[Rec[l].c].c503) =>
               PrintT("MISMATCH " \o ToJson([l |-> l, hist |-> hist, step |-> nsteps, kind |-> "own:closed-without-cause",
                                             detail |-> [c |-> Rec[l].c]]))
         /\ LET ev == Rec[l]
                c == ev.c
                have == S.s2c[c]
                pre == CASE ev.state = "data" ->
                              IF IsPrefixOf(ev.bytes, have) THEN ""
                              ELSE IF Len(have) < Len(ev.bytes) /\ IsPrefixOf(have, ev.bytes) THEN "bytes:extra"
                              ELSE "bytes:differ"
                         [] ev.state = "wouldblock" ->
                              IF have # <<>> THEN "bytes:missing"
                              ELSE IF S.cl[c].srvClosed \/ S.cl[c].rd THEN "eof:missing" ELSE ""
                         [] OTHER ->   \* eof / reset
                              IF have # <<>> THEN "bytes:missing"
                              ELSE IF ~(S.cl[c].srvClosed \/ S.cl[c].rd) THEN "eof:unexpected" ELSE ""
            IN IF ~dead /\ ReadyBad(ev) = "" /\ pre # ""
               THEN Bad(pre, [c |-> c, got |-> ev.bytes, state |-> ev.state, have |-> have]) /\ UNCHANGED S
               ELSE Step(ev, "", CRecv(S, c, Len(ev.bytes)))

TClose == /\ Ev("close") /\ Common /\ UNCHANGED <<rx, supplied>> /\ AbsSame /\ cause' = cause \cup {Rec[l].c} /\ Step(Rec[l], "", CClose(S, Rec[l].c))
TShutWr == /\ Ev("shutwr") /\ Common /\ UNCHANGED <<rx, supplied>> /\ AbsSame /\ cause' = cause \cup {Rec[l].c} /\ Step(Rec[l], "", CShutWr(S, Rec[l].c))
TShutRd == /\ Ev("shutrd") /\ Common /\ UNCHANGED <<rx, supplied>> /\ AbsSame /\ cause' = cause \cup {Rec[l].c} /\ Step(Rec[l], "", CShutRd(S, Rec[l].c))
TKill == /\ Ev("kill") /\ Common /\ RxSame /\ Step(Rec[l], "", Kill(S))
TSetLimit == /\ Ev("setlimit") /\ Common /\ RxSame /\ Step(Rec[l], "", SetLimit(S, Rec[l].limit))

TRespond ==
    /\ Ev("respond") /\ Common
    /\ supplied' = [supplied EXCEPT ![Rec[l].c] = Append(@, Rec[l].tag)] /\ UNCHANGED <<rx, bk, fdc>>
    /\ cause' = IF Len(Rec[l].ser) > 60000 THEN cause \cup {Rec[l].c} ELSE cause
    /\ tok' = {t \in tok : ~(t.c = Rec[l].c /\ t.tag = Rec[l].tag)}
    /\ LET ev == Rec[l]
           toks == {t \in S.outst : t.owner = ev.c /\ t.tag = ev.tag}
       IN IF toks = {} THEN Step(ev, "token:unknown", S)
          ELSE LET t == CHOOSE x \in toks : TRUE IN
               Step(ev, IF ev.res # "ok" THEN "apierr:respond" ELSE "", Respond(S, t, ev.ser))

\* enqueue_responses: respond one by one (the crate stops at the first failure; none is expected)
RECURSIVE RespondAll(_, _)
RespondAll(SS, items) ==
    IF items = <<>> THEN [S |-> SS, bad |-> ""]
    ELSE LET it == Head(items)
             toks == {t \in SS.outst : t.owner = it.c /\ t.tag = it.tag}
         IN IF toks = {} THEN [S |-> SS, bad |-> "token:unknown"]
            ELSE RespondAll(Respond(SS, CHOOSE x \in toks : TRUE, it.ser), Tail(items))
TRespondMany ==
    /\ Ev("respond_many") /\ Common
    /\ LET its == Rec[l].items IN
       supplied' = [c \in Clients |-> supplied[c] \o [i \in 1..Len(SelectSeq(its, LAMBDA x : x.c = c)) |-> SelectSeq(its, LAMBDA x : x.c = c)[i].tag]]
    /\ UNCHANGED <<rx, bk, fdc>>
    /\ cause' = cause \cup {Rec[l].items[i].c : i \in {j \in 1..Len(Rec[l].items) : Len(Rec[l].items[j].ser) > 60000}}
    /\ tok' = {t \in tok : ~(\E i \in 1..Len(Rec[l].items) : t.c = Rec[l].items[i].c /\ t.tag = Rec[l].items[i].tag)}
    /\ LET ev == Rec[l]
           r == RespondAll(S, ev.items)
       IN Step(ev, IF r.bad # "" THEN r.bad ELSE IF ev.res # "ok" THEN "apierr:respond" ELSE "", r.S)

\* flush_outgoing_writes in the determinate region: every write is accepted in full
\* unless the peer is gone
RECURSIVE FlushAllFull(_, _)
FlushAllFull(SS, fs) ==
    IF fs = {} THEN SS
    ELSE LET f == CHOOSE x \in fs : TRUE
             RECURSIVE One(_)
             One(X) == IF X.srv[f].st # "AwaitingOutgoing" THEN X
                       ELSE LET w == SrvWrite(X, f, NextWriteLen(X.srv[f].http)) IN
                            IF w.fail THEN X ELSE One(w.S)
         IN FlushAllFull(One(SS), fs \ {f})
TFlush == /\ Ev("flush") /\ Common /\ RxSame /\ Step(Rec[l], "", FlushAllFull(S, Open(S)))

TFdCount ==
    /\ Ev("fdcount") /\ Common /\ RxSame
    /\ LET ev == Rec[l]
           \* listener, epoll, kill switch, one per connection entry, plus every descriptor received over
           \* a socket that a connection or a request held by the application still owns
           want == 2 + (IF S.hasKill THEN 1 ELSE 0) + Cardinality(Open(S)) + HeldByServer(S)
       IN IF ~dead /\ ReadyBad(ev) = "" /\ ev.n # want
          THEN Bad("fds:count", [got |-> ev.n, expected |-> want, connections |-> Cardinality(Open(S)), received_held |-> HeldByServer(S)]) /\ UNCHANGED S
          ELSE Step(ev, "", S)

-----------------------------------------------------------------------------
\* epoll event bits -> class
KindOf(bits) == IF (bits \div 8) % 2 = 1 \/ (bits \div 16) % 2 = 1 \/ (bits \div 8192) % 2 = 1 THEN "HUP"
                ELSE IF bits % 2 = 1 THEN "IN"
                ELSE IF (bits \div 4) % 2 = 1 THEN "OUT" ELSE "none"
ToEvent(p) == <<IF p[1] = lfd THEN LFD ELSE IF p[1] = kfd THEN KFD ELSE p[1], KindOf(p[2])>>

Res(SS, stop, bad, hk) == [S |-> SS, stop |-> stop, bad |-> bad, hk |-> hk]

\* a client action performed INSIDE the requests() call, right before the server handles the next element
\* of the batch (harness hook at_event): the batch is stale from here on -- the race-only branches of the
\* code (a receive that returns end-of-stream, a write to a peer that has just gone, an accept of a client
\* that has already left) are bound to the same operators that MC_Server_race explores
ApplyMid(SS, h) ==
    CASE h.op = "close" -> CClose(SS, h.c)
      [] h.op = "shutwr" -> CShutWr(SS, h.c)
      [] h.op = "shutrd" -> CShutRd(SS, h.c)
      [] h.op = "send" -> CSend(SS, h.c, h.bytes)
      [] OTHER -> SS

RECURSIVE RunBatch(_, _, _, _)
\* i: 0-based index of the element Head(b) in the batch (a mid action names the index it preceded)
RunBatch(SS, b, hk, i) ==
    IF b = <<>> THEN Res(SS, "", "", hk)
    ELSE IF hk # <<>> /\ Head(hk).h = "mid" /\ Head(hk).at <= i THEN RunBatch(ApplyMid(SS, Head(hk)), b, Tail(hk), i)
    ELSE
    LET e == Head(b)  f == e[1] IN
    IF f = KFD THEN Res(SS, "shutdown", "", hk)
    ELSE IF f = LFD THEN
        IF hk = <<>> THEN Res(SS, "", "hook:missing-accept", hk)
        ELSE LET h == Head(hk)  full == Cardinality(Open(SS)) = MaxConn IN
             IF SS.backlog = <<>> THEN Res(SS, "", "batch:listener-without-backlog", hk)
             ELSE IF h.h = "refuse" THEN
                  IF full THEN RunBatch(SrvAccept(SS, 0), Tail(b), Tail(hk), i + 1)
                  ELSE Res(SS, "", "capacity:refused-below-capacity", hk)
             ELSE IF h.h = "accept" THEN
                  IF full THEN Res(SS, "", "capacity:accepted-at-capacity", hk)
                  ELSE IF h.fd \notin Fds THEN Res(SS, "", "harness:fd-out-of-range", hk)
                  ELSE IF h.fd \in Open(SS) THEN Res(SS, "", "fds:accept-returned-open-descriptor", hk)
                  ELSE RunBatch(SrvAccept(SS, h.fd), Tail(b), Tail(hk), i + 1)
             ELSE Res(SS, "", "hook:unexpected-" \o h.h, hk)
    ELSE IF f \notin Fds \/ SS.srv[f].st = "none" THEN Res(SS, "", "batch:event-for-unknown-descriptor", hk)
    ELSE IF SS.srv[f].st = "Closed" \/ e[2] # "OUT" THEN RunBatch(HandleEvent(SS, e, 0, 0).S, Tail(b), hk, i + 1)
    ELSE IF ~PendingWrite(SS.srv[f].http) THEN Res(SS, "err", "", hk)       \* InvalidWrite: requests() fails
    ELSE IF hk = <<>> \/ Head(hk).h # "write" THEN Res(SS, "", "hook:missing-write", hk)
    ELSE
    LET h == Head(hk)
        c == SS.srv[f].peer
        gone == PeerGone(SS, c)
        k == IF h.closed THEN 0 ELSE IF h.full THEN h.len ELSE h.len - h.left
    IN IF h.len # NextWriteLen(SS.srv[f].http) THEN Res(SS, "", "write:offered-length", hk)
       ELSE IF h.closed /\ ~gone /\ Len(SS.s2c[c]) <= 16384 THEN Res(SS, "", "write:failed-on-live-peer", hk)
       ELSE IF ~h.closed /\ gone THEN Res(SS, "", "write:succeeded-on-dead-peer", hk)
       ELSE IF ~h.closed /\ k = 0 THEN Res(SS, "", "write:zero", hk)
       ELSE RunBatch(SrvWrite(SS, f, k).S, Tail(b), Tail(hk), i + 1)

(***************************************************************************)
(* ServerAbs on the log alone (C07): accept hooks bind descriptor numbers  *)
(* to clients in connect order, yielded requests become tokens naming the  *)
(* number their connection has, remove hooks drop numbers.  A number that  *)
(* is dropped while a token still names it is the premise of every         *)
(* mis-delivery (TokenOK of ServerAbs); it is reported whatever the        *)
(* detailed model thinks of the history so far.                            *)
(***************************************************************************)
RECURSIVE AbsHooks(_, _, _)
AbsHooks(hs, q, m) ==       \* [bk, fdc] after the accept / refuse hooks of one call
    IF hs = <<>> THEN [bk |-> q, fdc |-> m]
    ELSE LET h == Head(hs) IN
         IF h.h = "refuse" /\ q # <<>> THEN AbsHooks(Tail(hs), Tail(q), m)
         ELSE IF h.h = "accept" /\ q # <<>> /\ h.fd \in Fds THEN AbsHooks(Tail(hs), Tail(q), [m EXCEPT ![h.fd] = Head(q)])
         ELSE AbsHooks(Tail(hs), q, m)
AbsPoll(ev, yielded) ==
    LET a == AbsHooks(ev.hooks, bk, fdc)
        FdOf(c) == LET fs == {f \in Fds : a.fdc[f] = c} IN IF fs = {} THEN 0 ELSE CHOOSE f \in fs : TRUE
        newt == {[c |-> yielded[i].c, tag |-> yielded[i].tag, fd |-> FdOf(yielded[i].c)] : i \in 1..Len(yielded)}
        removed == {ev.hooks[i].fd : i \in {j \in 1..Len(ev.hooks) : ev.hooks[j].h = "remove"}}
        allt == tok \cup newt
        orphan == {t \in allt : t.fd \in removed}
    IN /\ bk' = a.bk
       /\ fdc' = [f \in Fds |-> IF f \in removed THEN 0 ELSE a.fdc[f]]
       /\ tok' = allt \ orphan
       /\ (orphan # {}) => PrintT("MISMATCH " \o ToJson([l |-> l, hist |-> hist, step |-> nsteps, kind |-> "own:removed-with-requests-in-flight",
                                                         detail |-> [removed |-> removed, tokens |-> orphan]]))

TPoll ==
    /\ Ev("poll") /\ Common /\ UNCHANGED <<rx, supplied>>
    /\ cause' = cause \cup (IF Rec[l].called THEN {Rec[l].hooks[i].c : i \in {j \in 1..Len(Rec[l].hooks) : Rec[l].hooks[j].h = "mid" /\ Rec[l].hooks[j].op # "send"}} ELSE {})
    /\ IF Rec[l].called /\ Rec[l].res # "panic" THEN AbsPoll(Rec[l], IF Rec[l].res = "ok" THEN Rec[l].yielded ELSE <<>>) ELSE AbsSame
    /\ LET ev == Rec[l] IN
       IF dead THEN UNCHANGED <<S, dead, nbad>>
       ELSE IF ReadyBad(ev) # "" THEN Step(ev, "", S)
       ELSE IF ~ev.called THEN UNCHANGED <<S, dead, nbad>>
       ELSE IF ev.res = "panic" THEN Bad("pollerr:panic", [res |-> ev.res]) /\ UNCHANGED S
       ELSE
       LET hooks == ev.hooks
           bt == hooks[1].ev
           batch == [i \in 1..Len(bt) |-> ToEvent(bt[i])]
           bset == {batch[i] : i \in 1..Len(batch)}
           hk == SelectSeq(hooks, LAMBDA h : h.h \in {"accept", "refuse", "write", "mid"})
           removedLog == {hooks[i].fd : i \in {j \in 1..Len(hooks) : hooks[j].h = "remove"}}
           r == RunBatch(S, batch, hk, 0)
       IN IF ~(MustReady \subseteq bset /\ bset \subseteq MayReady) \/ Len(batch) # Cardinality(bset)
          THEN Bad("batch:not-the-ready-set", [batch |-> batch, must |-> MustReady, may |-> MayReady]) /\ UNCHANGED S
          ELSE IF r.bad # "" THEN Bad(r.bad, [batch |-> batch, hooks |-> hk]) /\ UNCHANGED S
          ELSE IF r.stop = "shutdown" THEN
               IF ev.res = "shutdown" THEN S' = Abort(r.S, "shutdown") /\ UNCHANGED <<dead, nbad>>
               ELSE Bad("kill:not-reported", [res |-> ev.res]) /\ UNCHANGED S
          ELSE IF r.stop = "err" THEN
               \* the specification itself predicts a failing requests(): a design-level defect
               Bad("pollerr:predicted", [res |-> ev.res]) /\ UNCHANGED S
          ELSE IF ev.res # "ok" THEN Bad("pollerr:" \o ev.res, [batch |-> batch]) /\ UNCHANGED S
          ELSE
          LET acc == r.S.acc
              yl == ev.yielded
              sameYield == Len(acc) = Len(yl) /\ \A i \in 1..Len(acc) : acc[i].owner = yl[i].c /\ acc[i].tag = yl[i].tag
              sameFiles == \A i \in 1..Len(acc) : acc[i].files = yl[i].files
              rm == Removed(r.S)
          IN IF ~sameYield THEN Bad(IF Len(yl) > Len(acc) THEN "yield:extra" ELSE "yield:differs",
                                    [expected |-> acc, got |-> yl]) /\ UNCHANGED S
             ELSE IF ~sameFiles THEN Bad("files:yielded", [expected |-> [i \in 1..Len(acc) |-> acc[i].files],
                                                           got |-> [i \in 1..Len(yl) |-> yl[i].files]]) /\ UNCHANGED S
             ELSE IF rm # removedLog THEN
                  Bad(IF \E f \in removedLog \ rm : r.S.srv[f].infl > 0 THEN "sweep:in-flight-connection-removed"
                      ELSE IF removedLog \ rm # {} THEN "sweep:live-connection-removed" ELSE "sweep:dead-connection-kept",
                      [expected |-> rm, got |-> removedLog]) /\ UNCHANGED S
             ELSE S' = Sweep(r.S) /\ UNCHANGED <<dead, nbad>>

\* requests() called while nothing is ready, epoll_wait interrupted by a signal (EINTR): no event is
\* handled, the sweep still runs, the call returns an empty list (PollEintr of MC_Server, bound here)
TPollEintr ==
    /\ Ev("poll_eintr") /\ Common /\ UNCHANGED <<rx, supplied, cause>>
    /\ IF Rec[l].res # "panic" THEN AbsPoll(Rec[l], <<>>) ELSE AbsSame
    /\ LET ev == Rec[l] IN
       IF dead THEN UNCHANGED <<S, dead, nbad>>
       ELSE IF ReadyBad(ev) # "" THEN Step(ev, "", S)
       ELSE IF ev.res = "panic" THEN Bad("pollerr:panic", [res |-> ev.res]) /\ UNCHANGED S
       ELSE
       LET hooks == ev.hooks
           batches == SelectSeq(hooks, LAMBDA h : h.h = "batch")
           other == SelectSeq(hooks, LAMBDA h : h.h \in {"accept", "refuse", "write"})
           removedLog == {hooks[i].fd : i \in {j \in 1..Len(hooks) : hooks[j].h = "remove"}}
           rm == Removed(S)
       IN IF ev.res # "ok" THEN Bad("pollerr:eintr-" \o ev.res, [hooks |-> hooks]) /\ UNCHANGED S
          ELSE IF Len(batches) # 1 \/ batches[1].ev # <<>> \/ other # <<>>
               THEN Bad("batch:event-handled-after-eintr", [hooks |-> hooks]) /\ UNCHANGED S
          ELSE IF ev.yielded # 0 THEN Bad("yield:extra", [expected |-> <<>>, got |-> ev.yielded]) /\ UNCHANGED S
          ELSE IF rm # removedLog THEN
               Bad(IF \E f \in removedLog \ rm : S.srv[f].infl > 0 THEN "sweep:in-flight-connection-removed"
                   ELSE IF removedLog \ rm # {} THEN "sweep:live-connection-removed" ELSE "sweep:dead-connection-kept",
                   [expected |-> rm, got |-> removedLog]) /\ UNCHANGED S
          ELSE S' = Sweep(S) /\ UNCHANGED <<dead, nbad>>

Next == TPollEintr \/ TReset \/ TEndHist \/ TConnect \/ TSend \/ TRecv \/ TClose \/ TShutWr \/ TShutRd \/ TKill \/ TSetLimit
        \/ TRespond \/ TRespondMany \/ TFlush \/ TFdCount \/ TPoll
Spec == Init /\ [][Next]_vars

\* the safety invariants of the server model hold in every state of every validated history
\* (after a shutdown report the requests parsed in that call are lost with their in-flight counts:
\*  the accounting invariant is not claimed beyond that point)
SrvInv == dead \/ (CapOK(S) /\ TokenOK(S) /\ (S.res = "shutdown" \/ InflOK(S)) /\ InterestOK(S) /\ S.res # "err"
                   /\ FilesOwnedOK(S) /\ FilesOnceOK(S) /\ ClosedNoOutput(S))

Accepted ==
    LET d == TLCGet("stats").diameter IN
    IF d - 1 = Len(Rec) THEN PrintT("TRACE_CONSUMED " \o ToString(Len(Rec)))
    ELSE PrintT("TRACE_STUCK at line " \o ToString(d) \o " of " \o ToString(Len(Rec))) /\ FALSE

=============================================================================
