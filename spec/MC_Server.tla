----------------------------- MODULE MC_Server -----------------------------
(***************************************************************************)
(* Exhaustive model of the server with its environment.                    *)
(*                                                                         *)
(* Clients run small programs (whole request, request in two halves,       *)
(* pipelined pair, Expect + body, malformed then well-formed, over-limit). *)
(* "Rogue" clients may in addition close or shut down either direction at  *)
(* any moment -- also between two sub-steps of a requests() call, which is *)
(* how the model reaches the race-only branches.  The application answers  *)
(* any outstanding request at any time (immediately, late, out of order),  *)
(* may flush, may signal the kill switch.  A requests() call is            *)
(* EpollWait . HandleEvent* . Sweep with every order of the batch.         *)
(*                                                                         *)
(* Decides on the model: C07 (TokenOK, InflOK), C08 (PollOK, InterestOK,   *)
(* NoStall, QuietNotReady, liveness EventuallyQuiet), C09 (PollOK with     *)
(* rogue clients, ReleasableReady, WitnessServed), C10 (CapOK, Refused503),*)
(* C18 (KillWins, KillReady).                                              *)
(***************************************************************************)
EXTENDS HttpServer

CONSTANTS Rogue,        \* clients that may close / shut down at any time
          Programs,     \* indices of the client programs that may be chosen
          SndCap,       \* bytes a socket's send buffer holds
          EventsCap,    \* size of the events array passed to epoll_wait (MaxConn + 2 in the crate)
          LimitN,       \* payload limit
          HasKill,      \* a kill switch is registered
          AllowKill, AllowFlush,
          AllowFds,     \* TRUE: any chunk a client sends may carry one descriptor (SCM_RIGHTS)
          AtomicPoll    \* TRUE: clients do not move while a requests() call is in progress

VARIABLES S,       \* the state record of HttpServer
          mode,    \* "app" | "poll"
          batch,   \* events of the current requests() call still to be handled
          todo,    \* per client: chunks still to be sent
          kAtStart \* ghost: the kill switch had been signalled when the current/last poll started
vars == <<S, mode, batch, todo, kAtStart>>

Digit(n) == <<48 + n>>
Get(c, k) == L_S_GET_A \o Digit(c) \o <<47>> \o Digit(k) \o L_S_GET_B
PutExpect(c, k) == L_S_PUT_A \o Digit(c) \o <<47>> \o Digit(k) \o L_S_PUT_B
PutBig(c, k) == L_S_BIG_A \o Digit(c) \o <<47>> \o Digit(k) \o L_S_BIG_B
PutBigExpect(c, k) == L_S_BIG_A \o Digit(c) \o <<47>> \o Digit(k) \o L_S_BIGX_B

Program(c, p) ==
    CASE p = 1 -> <<Get(c, 1)>>
      [] p = 2 -> <<Slice(Get(c, 1), 1, 7), Slice(Get(c, 1), 8, Len(Get(c, 1)))>>
      [] p = 3 -> <<Get(c, 1) \o Get(c, 2)>>
      [] p = 4 -> <<PutExpect(c, 1), L_S_BODY>>
      [] p = 5 -> <<L_S_BAD, Get(c, 1)>>
      [] p = 6 -> <<Get(c, 1), Get(c, 2)>>
      [] p = 7 -> <<PutBig(c, 1)>>                      \* declares more than the limit
      [] p = 8 -> <<Get(c, 1) \o L_S_BAD>>              \* valid request discarded with the malformed one
      [] p = 10 -> <<PutBigExpect(c, 1)>>               \* asks for 100 Continue but declares more than the limit
      [] p = 11 -> <<Get(c, 1), L_S_BAD>>                \* a request is yielded, then the connection sends garbage
      [] p = 12 -> <<>>                                  \* connects, sends nothing (a newcomer that only receives)
      [] p = 9 -> <<Get(c, 1) \o Get(c, 2) \o Get(c, 3)>>   \* three deep: answers may be supplied around a write
WellFormed(p) == p \in {1, 2, 3, 4, 6, 9}

\* the application's response to a token: a real serialized response tagged with owner and request
RespBytes(t) == SerializeResp(SetBody(NewResp("1.1", 200), Digit(t.owner) \o t.tag))

Writable(c) == Len(S.s2c[c]) < SndCap
Ready == ReadySet(S, Writable)

Init == /\ S = InitState(NatDigits(LimitN), HasKill)
        /\ mode = "app" /\ batch = <<>> /\ kAtStart = FALSE
        /\ \E pr \in [Clients -> Programs] : todo = [c \in Clients |-> Program(c, pr[c])]

-----------------------------------------------------------------------------
ClientsMayMove == mode = "app" \/ ~AtomicPoll

Connect(c) == /\ ClientsMayMove /\ S.cl[c].st = "idle"
              /\ S' = CConnect(S, c) /\ UNCHANGED <<mode, batch, todo, kAtStart>>

Send(c) == /\ ClientsMayMove /\ S.cl[c].st = "open" /\ ~S.cl[c].wr /\ ~S.cl[c].srvClosed
           /\ todo[c] # <<>>
           /\ \E withfd \in (IF AllowFds THEN {FALSE, TRUE} ELSE {FALSE}) :
                 S' = CSendFds(S, c, Head(todo[c]), IF withfd THEN <<FdBase * c + Len(todo[c])>> ELSE <<>>)
           /\ todo' = [todo EXCEPT ![c] = Tail(@)]
           /\ UNCHANGED <<mode, batch, kAtStart>>

Recv(c) == /\ ClientsMayMove /\ S.cl[c].st = "open" /\ S.s2c[c] # <<>>
           /\ S' = CRecv(S, c, Len(S.s2c[c])) /\ UNCHANGED <<mode, batch, todo, kAtStart>>

ShutWr(c) == /\ ClientsMayMove /\ c \in Rogue /\ S.cl[c].st = "open" /\ ~S.cl[c].wr
             /\ S' = CShutWr(S, c) /\ UNCHANGED <<mode, batch, todo, kAtStart>>
ShutRd(c) == /\ ClientsMayMove /\ c \in Rogue /\ S.cl[c].st = "open" /\ ~S.cl[c].rd
             /\ S' = CShutRd(S, c) /\ UNCHANGED <<mode, batch, todo, kAtStart>>
Close(c) == /\ ClientsMayMove /\ c \in Rogue /\ S.cl[c].st = "open"
            /\ S' = CClose(S, c) /\ UNCHANGED <<mode, batch, todo, kAtStart>>

\* ---- application ----
AppRespond(t) == /\ mode = "app" /\ t \in S.outst
                 /\ S' = Respond(S, t, RespBytes(t)) /\ UNCHANGED <<mode, batch, todo, kAtStart>>

\* flush_outgoing_writes; each write takes what fits.  Only when everything fits the socket
\* (otherwise the would-block is treated as a closed stream: named deviation EagainIsClosed).
Free(SS, c) == IF SndCap > Len(SS.s2c[c]) THEN SndCap - Len(SS.s2c[c]) ELSE 0
RECURSIVE FlushAll(_, _)
FlushAll(SS, fs) ==
    IF fs = {} THEN SS
    ELSE LET f == CHOOSE x \in fs : \A y \in fs : x <= y
             c == SS.srv[f].peer
             \* each write is offered one response and the kernel takes min(len, free)
             RECURSIVE One(_)
             One(X) == IF X.srv[f].st # "AwaitingOutgoing" THEN X
                       ELSE LET len == NextWriteLen(X.srv[f].http)
                                k == IF len < Free(X, c) THEN len ELSE Free(X, c)
                                w == SrvWrite(X, f, k)
                            IN IF w.fail THEN X ELSE One(w.S)
         IN FlushAll(One(SS), fs \ {f})
Fits(f) == Len(PendingBytes(S.srv[f].http)) <= Free(S, S.srv[f].peer) \/ PeerGone(S, S.srv[f].peer)
AppFlush == /\ mode = "app" /\ AllowFlush
            /\ \E f \in Open(S) : S.srv[f].st = "AwaitingOutgoing"
            /\ \A f \in Open(S) : S.srv[f].st = "AwaitingOutgoing" => Fits(f)
            /\ S' = FlushAll(S, Open(S)) /\ UNCHANGED <<mode, batch, todo, kAtStart>>

AppKill == /\ mode = "app" /\ AllowKill /\ HasKill /\ ~S.killed
           /\ S' = Kill(S) /\ UNCHANGED <<mode, batch, todo, kAtStart>>

\* ---- requests() ----
\* all sequences without repetition of exactly n elements of R
SeqsOf(R, n) == {q \in [1..n -> R] : \A i, j \in 1..n : i # j => q[i] # q[j]}

PollStart == /\ mode = "app" /\ Ready # {}              \* the caller polls only when epoll says ready
             /\ LET n == IF Cardinality(Ready) < EventsCap THEN Cardinality(Ready) ELSE EventsCap
                IN \E q \in SeqsOf(Ready, n) : batch' = q
             /\ mode' = "poll" /\ kAtStart' = (S.killed /\ S.hasKill)
             /\ UNCHANGED <<S, todo>>

FreeFds == Fds \ Open(S)
PollStep == /\ mode = "poll" /\ batch # <<>>
            /\ LET e == Head(batch)
                   c == IF e[1] \in Fds THEN S.srv[e[1]].peer ELSE 0
                   \* the kernel takes what fits of the response offered
                   len == IF e[1] \in Fds THEN NextWriteLen(S.srv[e[1]].http) ELSE 0
                   k == IF c = 0 THEN 0 ELSE IF len < Free(S, c) THEN len ELSE Free(S, c)
               IN \E nf \in (IF e[1] = LFD /\ Cardinality(Open(S)) < MaxConn THEN FreeFds ELSE {0}) :
                    LET r == HandleEvent(S, e, nf, k) IN
                    IF r.stop = "" THEN /\ S' = r.S /\ batch' = Tail(batch) /\ mode' = "poll"
                    ELSE /\ S' = Abort(r.S, r.stop) /\ batch' = <<>> /\ mode' = "app"
            /\ UNCHANGED <<todo, kAtStart>>

PollEnd == /\ mode = "poll" /\ batch = <<>>
           /\ S' = Sweep(S) /\ mode' = "app" /\ UNCHANGED <<batch, todo, kAtStart>>

\* epoll_wait interrupted by a signal (EINTR): no event is handled, the sweep still runs and the
\* call returns an empty list (bound to the code by the harness step poll_eintr / TPollEintr of Trace_Srv)
PollEintr == /\ mode = "app" /\ ~(S.killed /\ S.hasKill)
             /\ S' = Sweep(S) /\ UNCHANGED <<mode, batch, todo>> /\ kAtStart' = FALSE

ClientStep == \E c \in Clients : Connect(c) \/ Send(c) \/ Recv(c) \/ ShutWr(c) \/ ShutRd(c) \/ Close(c)
AppStep == (\E t \in S.outst : AppRespond(t)) \/ AppFlush \/ AppKill
ServerStep == PollStart \/ PollStep \/ PollEnd
Next == ClientStep \/ AppStep \/ ServerStep \/ PollEintr
Spec == Init /\ [][Next]_vars

\* liveness: the server steps, client sends/reads and the application's answers are fair
FairSpec == Spec /\ WF_vars(ServerStep) /\ WF_vars(\E t \in S.outst : AppRespond(t))
                 /\ \A c \in Clients : WF_vars(Connect(c)) /\ WF_vars(Send(c)) /\ WF_vars(Recv(c))

\* While a dead connection with unanswered requests makes the epoll descriptor signal all the
\* time, the caller polls in a loop and the application and the clients get their turn only
\* between two polls: they are enabled again and again, not continuously -> strong fairness.
StrongFairSpec == Spec /\ WF_vars(ServerStep) /\ SF_vars(\E t \in S.outst : AppRespond(t))
                       /\ \A c \in Clients : SF_vars(Connect(c)) /\ SF_vars(Send(c)) /\ SF_vars(Recv(c))

-----------------------------------------------------------------------------
\* C08 / C09: requests() never fails (also with rogue clients)
PollOK == S.res # "err"
\* C10
CapacityOK == CapOK(S)
\* C07
TokensOK == TokenOK(S) /\ (S.res = "shutdown" \/ InflOK(S))
\* C08
InterestsOK == InterestOK(S) /\ ClosedNoOutput(S)

\* C12 (server level): descriptors are conserved, never duplicated, and stay with the client that sent them
FilesOK == FilesOwnedOK(S) /\ FilesOnceOK(S)

\* C08: work the server could do shows as readiness (no stall)
NoStall ==
    mode = "app" =>
        \A f \in Open(S) :
            LET cn == S.srv[f]  c == cn.peer IN
            /\ (cn.st = "AwaitingOutgoing" /\ PendingWrite(cn.http) /\ Writable(c)) => ConnEvent(S, f, Writable) # "none"
            /\ (cn.st = "AwaitingIncoming" /\ S.c2s[c] # <<>>) => ConnEvent(S, f, Writable) # "none"

\* C08: nothing to do => the epoll descriptor is quiet (no spin)
Quiet == /\ mode = "app" /\ S.backlog = <<>> /\ ~(S.killed /\ S.hasKill) /\ S.outst = {}
         /\ \A f \in Open(S) : LET c == S.srv[f].peer IN
                /\ S.srv[f].st = "AwaitingIncoming" /\ S.c2s[c] = <<>> /\ ~Hangup(S, c)
QuietNotReady == Quiet => Ready = {}

\* C09 / C10: a connection that can be released is noticed (the next poll sweeps it)
\* (named deviation SlowRelease: if the peer shut down only its receiving side while our send buffer
\*  is full, the kernel reports nothing for that socket; such a connection is swept by the next
\*  requests() call that any other event causes, or when the peer finally closes)
ReleasableReady ==
    mode = "app" => \A f \in Open(S) :
        IsDone(S.srv[f]) => \/ ConnEvent(S, f, Writable) # "none"
                            \/ LET c == S.srv[f].peer IN S.cl[c].st = "open" /\ S.cl[c].rd /\ ~Writable(c)

\* C10: a refused client holds exactly the fixed message (or nothing if it had gone) and is disconnected
Refused503 ==
    \A c \in Clients :
        (S.cl[c].refused /\ S.cl[c].st = "open" /\ ~S.cl[c].rd)
            => /\ S.cl[c].srvClosed /\ S.cl[c].fd = 0
               \* what it has received plus what still waits for it is exactly the fixed message
               /\ S.cl[c].rcvd + Len(S.s2c[c]) = Len(L_SERVER_FULL)
               /\ S.s2c[c] = From(L_SERVER_FULL, S.cl[c].rcvd + 1)

\* C04 / C13 at the server: a request refused for its size is answered with the 400 only -- never invited
\* to send its body.  For configurations WITHOUT program 4 (the only one entitled to an interim response):
\* no client ever has a 100 Continue on its socket (program 10 asks for one and declares too much).
NoContinueForRefused ==
    \A c \in Clients : ~Contains(S.s2c[c], <<49, 48, 48, 32, 13, 10>>)

\* C18: a poll that starts after the signal reports shutdown; the signal keeps epoll ready
KillWins == (mode = "app" /\ kAtStart) => S.res = "shutdown"
KillReady == (S.killed /\ S.hasKill /\ mode = "app") => Ready # {}

\* C08 liveness: everything sent is eventually answered and the system comes to rest
AllSent == \A c \in Clients : todo[c] = <<>>
Rest == /\ AllSent /\ mode = "app" /\ S.outst = {} /\ S.backlog = <<>>
        /\ \A c \in Clients : S.c2s[c] = <<>> /\ S.s2c[c] = <<>>
        /\ \A f \in Open(S) : ~PendingWrite(S.srv[f].http)
EventuallyRest == <>[]Rest

\* C09 liveness: whatever the rogue clients do, the witness (client 1) gets all its answers
WitnessRest == /\ todo[1] = <<>> /\ mode = "app" /\ S.c2s[1] = <<>> /\ S.s2c[1] = <<>>
               /\ \A t \in S.outst : t.owner # 1
               /\ \A f \in Open(S) : S.srv[f].peer = 1 => ~PendingWrite(S.srv[f].http)
               /\ S.cl[1].st = "open"
WitnessServed == <>[]WitnessRest

-----------------------------------------------------------------------------
(***************************************************************************)
(* Refinement: every step of this model is a step of ServerAbs, whose      *)
(* invariants TokenOK / CapOK are proved with TLAPS for every number of    *)
(* clients and descriptors (ServerAbs_proofs.tla).  Property AbsRefines.   *)
(***************************************************************************)
AbsSt(x) == IF x = "none" THEN "none" ELSE IF x = "Closed" THEN "closed" ELSE "live"
AbsCL == Clients \cup {0}
Abs == INSTANCE ServerAbs WITH
          FD <- Fds, CL <- AbsCL, MaxConn <- MaxConn,
          st <- [f \in Fds |-> AbsSt(S.srv[f].st)],
          peer <- [f \in Fds |-> S.srv[f].peer],
          infl <- [f \in Fds |-> S.srv[f].infl],
          tok <- [f \in Fds |-> [c \in AbsCL |-> Cardinality({t \in Toks(S) : t.fd = f /\ t.owner = c})]]
AbsRefines == Abs!Spec

(***************************************************************************)
(* Second refinement: the epoll-interest core (ServerIntr), whose          *)
(* invariants NoParkedOutput / NoInvalidWrite / ClosedNoOutput are proved  *)
(* with TLAPS for any set of descriptors (ServerIntr_proofs.tla).          *)
(***************************************************************************)
IntrSt(x) == IF x = "none" THEN "none" ELSE IF x = "Closed" THEN "Closed"
             ELSE IF x = "AwaitingOutgoing" THEN "Out" ELSE "In"
PendCount(h) == Len(h.respQ) + (IF h.respBuf # <<>> THEN 1 ELSE 0)
Intr == INSTANCE ServerIntr WITH
          FD <- Fds,
          st <- [f \in Fds |-> IntrSt(S.srv[f].st)],
          intr <- [f \in Fds |-> S.srv[f].intr],
          pend <- [f \in Fds |-> PendCount(S.srv[f].http)],
          infl <- [f \in Fds |-> S.srv[f].infl]
IntrRefines == Intr!Spec

-----------------------------------------------------------------------------
WitnessNames == <<"two_event_batch", "refused", "fd_reused", "swept_after_respond", "closed_with_inflight",
                  "interim_sent", "error_400", "partial_write", "hup_mid_poll", "kill_returned", "flush_used",
                  "respond_on_closed", "epipe", "discard_on_error", "pipelined_yield", "size_limit_400",
                  "files_yielded", "files_on_closed_conn", "files_glued_read">>
ASSUME \A i \in 1..Len(WitnessNames) : TLCSet(i, FALSE)
Witness(i, cond) == IF cond /\ ~TLCGet(i) THEN TLCSet(i, TRUE) /\ PrintT(<<"WITNESS", WitnessNames[i]>>) ELSE TRUE
Witnesses ==
    /\ Witness(1, Len(batch) >= 2)
    /\ Witness(2, \E c \in Clients : S.cl[c].refused /\ S.s2c[c] = L_SERVER_FULL)
    /\ Witness(3, \E c, d \in Clients : c # d /\ S.cl[c].srvClosed /\ ~S.cl[c].refused /\ S.cl[d].fd # 0)
    /\ Witness(4, \E f \in Open(S) : S.srv[f].st = "Closed" /\ S.srv[f].infl = 0 /\ mode = "app")
    /\ Witness(5, \E f \in Open(S) : S.srv[f].st = "Closed" /\ S.srv[f].infl > 0)
    /\ Witness(6, \E c \in Clients : Contains(S.s2c[c], <<49, 48, 48, 32>>))
    /\ Witness(7, \E c \in Clients : Contains(S.s2c[c], <<52, 48, 48, 32>>))
    /\ Witness(8, \E f \in Open(S) : S.srv[f].http.respBuf # <<>>)
    /\ Witness(9, mode = "poll" /\ \E i \in 1..Len(batch) : batch[i][1] \in Fds /\ batch[i][2] # "HUP" /\ Hangup(S, S.srv[batch[i][1]].peer))
    /\ Witness(10, S.res = "shutdown")
    /\ Witness(11, AllowFlush = FALSE \/ (mode = "app" /\ \E c \in Clients : S.s2c[c] # <<>> /\ \E f \in Open(S) : S.srv[f].peer = c /\ S.srv[f].st = "AwaitingIncoming" /\ S.srv[f].intr = "IN"))
    /\ Witness(12, \E f \in Open(S) : S.srv[f].st = "Closed" /\ \E t \in S.outst : t.fd = f)
    /\ Witness(13, \E f \in Open(S) : S.srv[f].st = "Closed" /\ S.cl[S.srv[f].peer].rd /\ S.cl[S.srv[f].peer].st = "open")
    /\ Witness(14, \E c \in Clients : todo[c] = <<>> /\ Contains(S.s2c[c], <<52, 48, 48, 32>>) /\ S.outst = {} /\ mode = "app")
    /\ Witness(15, Len(S.acc) >= 2)
    /\ Witness(16, \E c \in Clients : Contains(S.s2c[c], L_D_SIZE_A))
    /\ Witness(17, \E t \in S.outst : t.files # <<>>)
    /\ Witness(18, \E f \in Open(S) : S.srv[f].st = "Closed" /\ S.srv[f].http.files # <<>>)
    /\ Witness(19, \E c \in Clients : S.c2sfd[c] # <<>> /\ Head(S.c2sfd[c]).s > 0)

=============================================================================
