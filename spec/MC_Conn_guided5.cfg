SPECIFICATION Spec
CONSTANTS
  BUF = 32
  MaxLines = 5
  LimitN = 3
  MaxFds = 0
  DeferPop = FALSE
  Guided = TRUE
  TSet = {1, 2, 5, 8, 10, 12, 14, 19, 21, 22}
INVARIANTS Refines StructOK FreshAfterError BodyBound ContinueRule FilesOrdered AttachRule Witnesses
PROPERTIES EmptyReadInert
CHECK_DEADLOCK FALSE
