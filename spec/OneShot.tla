------------------------------ MODULE OneShot ------------------------------
(***************************************************************************)
(* Request::try_from -- the second, one-shot parser of the same grammar    *)
(* (no line or payload limits; rejects GET with a body; rejects slices     *)
(* whose length reaches the caller's maximum).  C14.                       *)
(***************************************************************************)
EXTENDS HttpGrammar

MinRequestLine == 14      \* "GET" SP one-byte-URI SP "HTTP/1.0"

OS_Bad(e) == [ok |-> FALSE, r |-> Delivered(NoReq, <<>>, FALSE, <<>>), e |-> e]
OS_Ok(p, body, hasBody) == [ok |-> TRUE, r |-> Delivered(p, body, hasBody, <<>>), e |-> NoErr]

\* hasMax / max: Option<usize> of the caller
OneShotParse(s, hasMax, max) ==
    LET n == Len(s) IN
    IF hasMax /\ n >= max THEN OS_Bad(E_InvalidRequest)
    ELSE
    LET p == FindCRLF(s, 1, n) IN
    IF p = 0 THEN OS_Bad(E_InvalidRequest)
    ELSE IF p - 1 < MinRequestLine THEN OS_Bad(E_InvalidRequest)
    ELSE
    LET rl == ParseRequestLine(Slice(s, 1, p - 1)) IN
    IF ~rl.ok THEN OS_Bad(rl.err)
    ELSE
    LET q == FindCRLFCRLF(s, p, n) IN            \* searched from the request line's own CR LF
    IF q = 0 THEN OS_Bad(E_InvalidRequest)
    ELSE IF q = p THEN OS_Ok(NewReq(rl), <<>>, FALSE)      \* no headers; anything that follows is ignored
    ELSE
    LET hb == ParseHeaderBlock(Slice(s, p + 2, q - 1)) IN
    IF ~hb.ok THEN OS_Bad(hb.err)
    ELSE
    LET req == [NewReq(rl) EXCEPT !.h = hb.h]
        bodyStart == q + 4
        avail == n - bodyStart + 1
    IN IF hb.h.cl = <<0>> THEN OS_Ok(req, <<>>, FALSE)
       ELSE IF rl.m = "GET" THEN OS_Bad(E_InvalidRequest)
       ELSE IF NatDigits(avail) # hb.h.cl THEN OS_Bad(E_InvalidRequest)     \* body must be exactly Content-Length
       ELSE OS_Ok(req, Slice(s, bodyStart, n), TRUE)

\* comparison of two delivered requests field by field (custom entries as a set)
SameRequest(a, b) ==
    /\ a.m = b.m /\ a.uri = b.uri /\ a.v = b.v
    /\ a.h.cl = b.h.cl /\ a.h.expect = b.h.expect /\ a.h.chunked = b.h.chunked /\ a.h.accept = b.h.accept
    /\ Len(a.h.custom) = Len(b.h.custom)
    /\ {a.h.custom[i] : i \in 1..Len(a.h.custom)} = {b.h.custom[i] : i \in 1..Len(b.h.custom)}
    /\ a.body = b.body /\ a.hasBody = b.hasBody

\* C14 on the two meanings: os = OneShotParse(s, ..); w = Whole(s, limit)
FirstReq(outs) == LET rs == SelectSeq(outs, LAMBDA o : o.k = "req") IN rs
AgreeForward(os, w) ==       \* one-shot accepts => the connection's first request is identical
    os.ok => (LET rs == FirstReq(w.outs) IN Len(rs) >= 1 /\ SameRequest(os.r, rs[1].r))
\* exactly one request and nothing left over => one-shot accepts with the same result
\* (except GET with a body); `clean` = the connection is back at a request boundary
AgreeBackward(os, w, clean) ==
    LET rs == FirstReq(w.outs) IN
    (Len(rs) = 1 /\ w.err = NoErr /\ clean /\ ~(rs[1].r.m = "GET" /\ rs[1].r.hasBody))
        => (os.ok /\ SameRequest(os.r, rs[1].r))

=============================================================================
