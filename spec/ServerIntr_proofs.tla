------------------------- MODULE ServerIntr_proofs -------------------------
(***************************************************************************)
(* TLAPS proof that Inv is an inductive invariant of ServerIntr for any    *)
(* set of descriptor numbers, and that it implies what C08 needs.          *)
(*   tlapm --threads 8 ServerIntr_proofs.tla                               *)
(***************************************************************************)
EXTENDS ServerIntr, TLAPS

THEOREM InitInv == Init => Inv
  BY DEF Init, Inv, TypeOK, IntrOK

THEOREM NextInv == Inv /\ [Next]_vars => Inv'
  <1> SUFFICES ASSUME Inv, [Next]_vars PROVE Inv' OBVIOUS
  <1> USE DEF Inv, TypeOK, IntrOK, Live
  <1>1. ASSUME NEW f \in FD, Accept(f) PROVE Inv' BY <1>1 DEF Accept
  <1>2. ASSUME NEW f \in FD, ReadEof(f) PROVE Inv' BY <1>2 DEF ReadEof
  <1>3. ASSUME NEW f \in FD, WriteFail(f) PROVE Inv' BY <1>3 DEF WriteFail
  <1>4. ASSUME NEW f \in FD, Hup(f) PROVE Inv' BY <1>4 DEF Hup
  <1>5. ASSUME NEW f \in FD, Respond(f) PROVE Inv'
    <2>1. CASE st[f] = "Closed" BY <1>5, <2>1 DEF Respond
    <2>2. CASE st[f] # "Closed" BY <1>5, <2>2 DEF Respond
    <2> QED BY <2>1, <2>2
  <1>6. ASSUME NEW f \in FD, Read(f) PROVE Inv'
    <2>1. CASE pend'[f] > 0 BY <1>6, <2>1 DEF Read
    <2>2. CASE ~(pend'[f] > 0) BY <1>6, <2>2 DEF Read
    <2> QED BY <2>1, <2>2
  <1>7. ASSUME NEW f \in FD, NEW d \in {0, 1}, Write(f, d) PROVE Inv'
    <2>1. CASE pend[f] - d = 0 BY <1>7, <2>1 DEF Write
    <2>2. CASE pend[f] - d # 0 BY <1>7, <2>2 DEF Write
    <2> QED BY <2>1, <2>2
  <1>8. ASSUME NEW R \in SUBSET FD, Flush(R) PROVE Inv'
    <2>1. TypeOK' BY <1>8 DEF Flush
    <2>2. IntrOK' BY <1>8 DEF Flush
    <2> QED BY <2>1, <2>2
  <1>9. ASSUME NEW R \in SUBSET FD, Sweep(R) PROVE Inv' BY <1>9 DEF Sweep
  <1>10. ASSUME UNCHANGED vars PROVE Inv' BY <1>10 DEF vars
  <1> QED BY <1>1, <1>2, <1>3, <1>4, <1>5, <1>6, <1>7, <1>8, <1>9, <1>10 DEF Next

THEOREM Safety == Spec => []Inv
  BY InitInv, NextInv, PTL DEF Spec

THEOREM InvImplies == Inv => (NoParkedOutput /\ NoInvalidWrite /\ ClosedNoOutput)
  BY DEF Inv, TypeOK, IntrOK, NoParkedOutput, NoInvalidWrite, ClosedNoOutput, Live

THEOREM C08_core == Spec => [](NoParkedOutput /\ NoInvalidWrite /\ ClosedNoOutput)
  BY Safety, InvImplies, PTL
=============================================================================
