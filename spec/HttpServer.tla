---------------------------- MODULE HttpServer ----------------------------
(***************************************************************************)
(* The epoll server, the kernel (Unix stream sockets, listener backlog,    *)
(* epoll readiness, eventfd kill switch), the clients and the application  *)
(* -- as pure operators on one explicit state record, so that the same     *)
(* definitions serve exhaustive checking (MC_Server: one sub-step per      *)
(* action, clients may move between the sub-steps of a poll) and trace     *)
(* validation (Trace_Srv: one logged requests() call = PollStart, one      *)
(* HandleEvent per batch element, Sweep).  The connection machine of       *)
(* HttpConn is embedded unchanged: the server model contains the real      *)
(* parser, not an abstraction of it.                                       *)
(*                                                                         *)
(* One call of HttpServer::requests() is                                   *)
(*    EpollWait (batch) . HandleEvent* . Sweep                             *)
(* Kernel choices that the specification cannot predict are parameters:    *)
(* the order of a batch, the descriptor number chosen by accept, the       *)
(* number of bytes a write accepts.                                        *)
(***************************************************************************)
EXTENDS HttpConn

CONSTANTS Clients,     \* client identities (naturals >= 1)
          Fds,         \* descriptor numbers the server may get from accept
          MaxConn      \* MAX_CONNECTIONS (10; 3 in the small build)

LFD == 0               \* pseudo descriptor of the listener in batches
KFD == 1000            \* pseudo descriptor of the kill switch

(***************************************************************************)
(* Kernel side                                                             *)
(***************************************************************************)
\* client end of a connection
\* (rcvd: bytes received so far by a client that was refused -- 0 for all others; ghost for Refused503)
ClientInit == [st |-> "idle", wr |-> FALSE, rd |-> FALSE, fd |-> 0, srvClosed |-> FALSE, refused |-> FALSE, rcvd |-> 0]

NoConn == [st |-> "none", infl |-> 0, http |-> InitConn(<<0>>), intr |-> "IN", peer |-> 0]
NewConn(c, limit) == [st |-> "AwaitingIncoming", infl |-> 0, http |-> InitConn(limit), intr |-> "IN", peer |-> c]

InitState(limit, hasKill) ==
    [srv |-> [f \in Fds |-> NoConn],
     cl |-> [c \in Clients |-> ClientInit],
     c2s |-> [c \in Clients |-> <<>>],      \* bytes sent by the client, not yet received by the server
     s2c |-> [c \in Clients |-> <<>>],      \* bytes written by the server, not yet received by the client
     c2sfd |-> [c \in Clients |-> <<>>],    \* messages in c2s that carry descriptors (SCM_RIGHTS): [s, e, fds],
                                            \* byte offsets s < e into c2s[c] of the message, in order
     backlog |-> <<>>,                      \* connections waiting in the listener queue
     killed |-> FALSE, hasKill |-> hasKill,
     limit |-> limit,                       \* the server's payload limit (applies to later accepts)
     outst |-> {},                          \* tokens the application holds: [fd, owner, tag]
     acc |-> <<>>,                          \* requests parsed so far in the current requests() call
     res |-> "none"]                        \* result of the last completed requests() call

Open(S) == {f \in Fds : S.srv[f].st # "none"}

\* peer has closed or shut down its sending direction: EPOLLRDHUP (| EPOLLHUP | EPOLLERR)
Hangup(S, c) == S.cl[c].st = "closed" \/ S.cl[c].wr
\* our writes to the peer fail with EPIPE
PeerGone(S, c) == S.cl[c].st = "closed" \/ S.cl[c].rd

\* Readiness class of a connection under its registered interest.  The server tests the
\* hang-up bits first, so a hang-up masks pending input (named deviation HangupDropsInput).
\* writable(c) is the kernel's verdict on the socket's send buffer (a parameter).
ConnEvent(S, f, writable(_)) ==
    LET c == S.srv[f].peer IN
    IF Hangup(S, c) THEN "HUP"
    ELSE IF S.srv[f].intr = "IN" /\ S.c2s[c] # <<>> THEN "IN"
    \* (a peer that only shut down its receiving side does NOT make a full socket writable: the data
    \*  it never read still occupies the send buffer; the next write that gets through fails with EPIPE)
    ELSE IF S.srv[f].intr = "OUT" /\ writable(c) THEN "OUT"
    ELSE "none"

ReadySet(S, writable(_)) ==
    {<<f, ConnEvent(S, f, writable)>> : f \in {g \in Open(S) : ConnEvent(S, g, writable) # "none"}}
    \cup (IF S.backlog # <<>> THEN {<<LFD, "IN">>} ELSE {})
    \cup (IF S.killed /\ S.hasKill THEN {<<KFD, "IN">>} ELSE {})

(***************************************************************************)
(* Client actions (pure)                                                   *)
(***************************************************************************)
CConnect(S, c) == [S EXCEPT !.cl[c].st = "open", !.backlog = Append(@, c)]
\* sendmsg of one message (one skb) with descriptors attached (none: a plain write)
CSendFds(S, c, bytes, fds) ==
    [S EXCEPT !.c2s[c] = @ \o bytes,
              !.c2sfd[c] = IF fds = <<>> \/ bytes = <<>> THEN @
                           ELSE Append(@, [s |-> Len(S.c2s[c]), e |-> Len(S.c2s[c]) + Len(bytes), fds |-> fds])]
CSend(S, c, bytes) == CSendFds(S, c, bytes, <<>>)
CRecv(S, c, n) == [S EXCEPT !.s2c[c] = Slice(@, n + 1, Len(@)),
                           !.cl[c].rcvd = IF S.cl[c].refused THEN @ + n ELSE @]
CShutWr(S, c) == [S EXCEPT !.cl[c].wr = TRUE]
\* shutdown(RD): what is already queued stays readable; later writes of the peer fail (EPIPE)
CShutRd(S, c) == [S EXCEPT !.cl[c].rd = TRUE]
CClose(S, c) == [S EXCEPT !.cl[c].st = "closed", !.s2c[c] = <<>>]

(***************************************************************************)
(* Display texts of parse errors (they reach clients inside 400 bodies)    *)
(***************************************************************************)
Utf8ErrText(upto, elen) ==
    IF elen = 0 THEN L_D_H_UTF8_INCOMPLETE \o DigitsAscii(NatDigits(upto))
    ELSE L_D_H_UTF8_INVALID_A \o DigitsAscii(NatDigits(elen)) \o L_D_H_UTF8_INVALID_B \o DigitsAscii(NatDigits(upto))

ErrText(e) ==
    CASE e.t = "InvalidRequest" -> L_D_INVALID_REQUEST
      [] e.t = "InvalidHttpMethod" -> L_D_INVALID_METHOD
      [] e.t = "InvalidHttpVersion" -> L_D_INVALID_VERSION
      [] e.t = "InvalidUri" -> IF e.n = 0 THEN L_D_INVALID_URI_EMPTY ELSE L_D_INVALID_URI_UTF8
      [] e.t = "SizeLimitExceeded" -> L_D_SIZE_A \o DigitsAscii(e.b) \o L_D_SIZE_B \o DigitsAscii(e.a) \o L_D_SIZE_C
      [] e.t = "H.InvalidFormat" -> L_D_HDR \o L_D_H_FORMAT \o e.a
      [] e.t = "H.InvalidUtf8String" -> L_D_HDR \o L_D_H_UTF8 \o Utf8ErrText(e.n, e.m)
      [] e.t = "H.InvalidValue" -> L_D_HDR \o L_D_H_VALUE_A \o e.a \o L_D_H_VALUE_B \o e.b
      [] e.t = "H.SizeLimitExceeded" -> L_D_HDR \o L_D_H_SIZE \o e.a
      [] OTHER -> <<>>

Resp400(e) == SerializeResp(SetBody(NewResp("1.1", 400), L_D_400_PRE \o ErrText(e) \o L_D_400_POST))

(***************************************************************************)
(* Server: one event of a batch                                            *)
(***************************************************************************)
Token(f, owner, tag, files) == [fd |-> f, owner |-> owner, tag |-> tag, files |-> files]

\* What one recvmsg of at most w bytes takes from the socket of client c (unix stream sockets):
\* messages are glued together until the receive has consumed (part of) a message that carries
\* descriptors -- those descriptors come with the FIRST byte taken from that message and nothing
\* after that message is returned by the same call.
RecvLen(S, c, w) ==
    LET avail == Len(S.c2s[c])
        lim == IF avail < w THEN avail ELSE w
        segs == S.c2sfd[c]
        hit == segs # <<>> /\ Head(segs).s < lim
    IN [n |-> IF hit /\ Head(segs).e < lim THEN Head(segs).e ELSE lim,
        fds |-> IF hit THEN Head(segs).fds ELSE <<>>,
        hit |-> hit]
ShiftSegs(segs, hit, n) ==
    LET rest == IF hit THEN Tail(segs) ELSE segs
    IN [i \in 1..Len(rest) |-> [s |-> rest[i].s - n, e |-> rest[i].e - n, fds |-> rest[i].fds]]

\* ClientConnection::read -- one try_read on min(available, window) bytes
SrvRead(S, f) ==
    LET cn == S.srv[f]
        c == cn.peer
        rl == RecvLen(S, c, BUF - Len(cn.http.buf))
        n == rl.n
    IN IF n = 0
       THEN \* recvmsg returns 0 (peer shut down) or EAGAIN: race-only branches
            IF Hangup(S, c) THEN [S EXCEPT !.srv[f].st = "Closed"] ELSE S
       ELSE
       LET r == TryRead(cn.http, Slice(S.c2s[c], 1, n), rl.fds)
           isErr == r.res.k = "ParseError"
           \* DiscardOnError: requests completed in the same read as a malformed one are dropped
           yielded == IF isErr THEN <<>> ELSE r.c.parsed
           h1 == PopAll(r.c)
           h2 == IF isErr THEN Enqueue(h1, Resp400(r.res.e)) ELSE h1
           out == PendingWrite(h2)
           toks == [i \in 1..Len(yielded) |-> Token(f, c, yielded[i].uri, yielded[i].files)]
       IN [S EXCEPT !.c2s[c] = Slice(@, n + 1, Len(@)),
                    !.c2sfd[c] = ShiftSegs(@, rl.hit, n),
                    !.srv[f].http = h2,
                    !.srv[f].infl = @ + Len(yielded),
                    !.srv[f].st = IF out THEN "AwaitingOutgoing" ELSE @,
                    !.srv[f].intr = IF out THEN "OUT" ELSE @,
                    !.acc = @ \o toks]

\* ClientConnection::write -- one try_write; k = bytes the kernel accepts (0 = EAGAIN/EPIPE)
\* Returns the state and whether requests() must fail (InvalidWrite).
SrvWrite(S, f, k) ==
    LET cn == S.srv[f]
        c == cn.peer
    IN IF ~PendingWrite(cn.http) THEN [S |-> S, fail |-> TRUE]
       ELSE
       LET o == IF PeerGone(S, c) \/ k = 0 THEN [k |-> "error", n |-> 0] ELSE [k |-> "accept", n |-> k]
           w == TryWrite(cn.http, o)
           st2 == IF w.res.k = "ConnectionClosed" THEN "Closed"
                  ELSE IF ~PendingWrite(w.c) THEN "AwaitingIncoming" ELSE cn.st
       IN [S |-> [S EXCEPT !.srv[f].http = w.c,
                           !.srv[f].st = st2,
                           !.srv[f].intr = IF st2 = "AwaitingIncoming" THEN "IN" ELSE @,
                           !.s2c[c] = @ \o w.sent],
           fail |-> FALSE]

\* the listener: accept into descriptor nf, or refuse with the fixed 503 when full
SrvAccept(S, nf) ==
    LET c == Head(S.backlog) IN
    IF Cardinality(Open(S)) = MaxConn
    THEN \* refused: accept, write the message (result ignored), drop the stream
         [S EXCEPT !.backlog = Tail(@),
                   !.s2c[c] = IF PeerGone(S, c) THEN @ ELSE @ \o L_SERVER_FULL,
                   !.cl[c].srvClosed = TRUE, !.cl[c].refused = TRUE]
    ELSE [S EXCEPT !.backlog = Tail(@),
                   !.srv[nf] = NewConn(c, S.limit),
                   !.cl[c].fd = nf]

\* One element <<f, kind>> of the batch.  nf: descriptor accept returns; k: bytes a write accepts.
\* Result: [S, stop] -- stop = "" | "shutdown" | "err" ends the requests() call at once.
HandleEvent(S, e, nf, k) ==
    LET f == e[1]  kind == e[2] IN
    IF f = KFD THEN [S |-> S, stop |-> "shutdown"]
    ELSE IF f = LFD THEN [S |-> SrvAccept(S, nf), stop |-> ""]
    ELSE IF S.srv[f].st = "Closed" THEN [S |-> S, stop |-> ""]     \* kept only to absorb late responses
    ELSE IF kind = "HUP" THEN [S |-> [S EXCEPT !.srv[f].http = ClearWrite(@), !.srv[f].st = "Closed"], stop |-> ""]
    ELSE IF kind = "IN" THEN [S |-> SrvRead(S, f), stop |-> ""]
    ELSE LET w == SrvWrite(S, f, k) IN [S |-> w.S, stop |-> IF w.fail THEN "err" ELSE ""]

IsDone(cn) == cn.st = "Closed" /\ ~PendingWrite(cn.http) /\ cn.infl = 0
Removed(S) == {f \in Open(S) : IsDone(S.srv[f])}

\* end of requests(): drop dead connections (their descriptors are closed), hand out the requests
Sweep(S) ==
    LET rm == Removed(S) IN
    [S EXCEPT !.srv = [f \in Fds |-> IF f \in rm THEN NoConn ELSE S.srv[f]],
              !.cl = [c \in Clients |-> IF \E f \in rm : S.srv[f].peer = c /\ S.cl[c].fd = f
                                       THEN [S.cl[c] EXCEPT !.srvClosed = TRUE, !.fd = 0] ELSE S.cl[c]],
              !.outst = @ \cup {S.acc[i] : i \in 1..Len(S.acc)},
              !.acc = <<>>,
              !.res = "ok"]

\* requests() ended early: Err(ShutdownEvent) or a propagated failure.  Requests parsed
\* earlier in this call are lost to the application (their in-flight counts stay).
Abort(S, how) == [S EXCEPT !.acc = <<>>, !.res = how]

(***************************************************************************)
(* Application                                                             *)
(***************************************************************************)
\* HttpServer::respond: looked up by descriptor number only
Respond(S, tok, bytes) ==
    LET cn == S.srv[tok.fd] IN
    IF cn.st = "none" THEN [S EXCEPT !.outst = @ \ {tok}]
    ELSE [S EXCEPT !.outst = @ \ {tok},
                   !.srv[tok.fd].st = IF cn.st = "AwaitingIncoming" THEN "AwaitingOutgoing" ELSE @,
                   !.srv[tok.fd].intr = IF cn.st = "AwaitingIncoming" THEN "OUT" ELSE @,
                   !.srv[tok.fd].http = IF cn.st = "Closed" THEN @ ELSE Enqueue(@, bytes),
                   !.srv[tok.fd].infl = @ - 1]

\* flush_outgoing_writes for one connection: write while AwaitingOutgoing.
\* ks: the bytes each successive write accepts (0 = would block / broken pipe).
RECURSIVE FlushConn(_, _, _)
FlushConn(S, f, ks) ==
    IF S.srv[f].st # "AwaitingOutgoing" \/ ks = <<>> THEN S
    ELSE LET w == SrvWrite(S, f, Head(ks)) IN
         IF w.fail THEN S ELSE FlushConn(w.S, f, Tail(ks))

SetLimit(S, limit) == [S EXCEPT !.limit = limit]
Kill(S) == [S EXCEPT !.killed = TRUE]

(***************************************************************************)
(* State predicates used by the properties                                 *)
(***************************************************************************)
CapOK(S) == Cardinality(Open(S)) <= MaxConn

\* C07: every token the application holds (or is about to be handed) still names the
\* connection of the client that sent the request -- the entry is kept until in-flight = 0
TokenOK(S) ==
    \A t \in S.outst \cup {S.acc[i] : i \in 1..Len(S.acc)} :
        S.srv[t.fd].st # "none" /\ S.srv[t.fd].peer = t.owner

\* in-flight accounting: the count of an entry equals the tokens naming it
InflOK(S) ==
    \A f \in Open(S) :
        S.srv[f].infl = Cardinality({t \in S.outst : t.fd = f}) + Cardinality({i \in 1..Len(S.acc) : S.acc[i].fd = f})

\* C12 at the level of the server: descriptors are conserved and stay with their owner.  Descriptor
\* tags are FdBase * client + k; every descriptor in the system is in exactly one place and that place
\* belongs to the client that sent it.
FdBase == 100
SeqSet(q) == {q[i] : i \in 1..Len(q)}
FilesOwnedOK(S) ==
    /\ \A f \in Open(S) : \A x \in SeqSet(S.srv[f].http.files) : x \div FdBase = S.srv[f].peer
    /\ \A t \in S.outst \cup SeqSet(S.acc) : \A x \in SeqSet(t.files) : x \div FdBase = t.owner
    /\ \A c \in Clients : \A i \in 1..Len(S.c2sfd[c]) : \A x \in SeqSet(S.c2sfd[c][i].fds) : x \div FdBase = c
\* no descriptor is in two places (or twice in one): the distinct tags are as many as the positions
Toks(S) == S.outst \cup SeqSet(S.acc)
HeldByServer(S) ==
    Cardinality(UNION {{<<f, i>> : i \in 1..Len(S.srv[f].http.files)} : f \in Open(S)})
    + Cardinality(UNION {{<<t, i>> : i \in 1..Len(t.files)} : t \in Toks(S)})
InFlightFds(S) == UNION {{<<c, i, j>> : j \in 1..Len(S.c2sfd[c][i].fds)} : <<c, i>> \in UNION {{<<d, k>> : k \in 1..Len(S.c2sfd[d])} : d \in Clients}}
FilesOnceOK(S) ==
    LET tags == UNION {SeqSet(S.srv[f].http.files) : f \in Open(S)}
                \cup UNION {SeqSet(t.files) : t \in Toks(S)}
                \cup UNION {SeqSet(S.c2sfd[p[1]][p[2]].fds) : p \in UNION {{<<d, k>> : k \in 1..Len(S.c2sfd[d])} : d \in Clients}}
    IN Cardinality(tags) = HeldByServer(S) + Cardinality(InFlightFds(S))

\* C09 / C10: an entry that is closed holds no output (a hang-up and a failed write both discard it, and
\* answers for a closed entry are dropped), so nothing but unanswered requests keeps it from being released
ClosedNoOutput(S) == \A f \in Open(S) : S.srv[f].st = "Closed" => ~PendingWrite(S.srv[f].http)

\* C08: registered interest mirrors the state; output is never parked under IN interest
InterestOK(S) ==
    \A f \in Open(S) :
        /\ S.srv[f].st = "AwaitingOutgoing" => S.srv[f].intr = "OUT"
        /\ S.srv[f].st = "AwaitingIncoming" => (S.srv[f].intr = "IN" /\ ~PendingWrite(S.srv[f].http))

=============================================================================
