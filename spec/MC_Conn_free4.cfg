SPECIFICATION Spec
CONSTANTS
  BUF = 32
  MaxLines = 4
  LimitN = 5
  MaxFds = 0
  DeferPop = FALSE
  Guided = FALSE
  TSet = {1, 5, 8, 11, 12, 14, 15, 19, 21, 22, 23, 24}
INVARIANTS Refines StructOK FreshAfterError BodyBound ContinueRule FilesOrdered AttachRule Witnesses
PROPERTIES EmptyReadInert
CHECK_DEADLOCK FALSE
