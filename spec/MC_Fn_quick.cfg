SPECIFICATION Spec
CONSTANTS
  BUF = 64
  MaxLines = 2
  UriLen = 4
INVARIANTS CaseOK Witnesses
CHECK_DEADLOCK FALSE
