----------------------------- MODULE MC_Conn -----------------------------
(***************************************************************************)
(* Exhaustive model of one connection: a sender that appends line          *)
(* templates to the stream, and a reader that takes ANY chunk size the     *)
(* window allows, may see EAGAIN/EINTR in between, may receive             *)
(* descriptors with a read, and keeps reading after errors.                *)
(* Decides on the model: C01 (Refines for every segmentation), C02/C04/C13 *)
(* (the machine computes Whole), C03 (CursorOK, totality), C11 (Fresh      *)
(* after every parse error), C12 (descriptor conservation and order).      *)
(***************************************************************************)
EXTENDS HttpGrammar

CONSTANTS MaxLines,     \* number of templates the sender may append
          LimitN,       \* payload limit (a natural number)
          MaxFds,       \* descriptors that may arrive in total
          Guided,       \* TRUE: the sender follows the successor relation below
          TSet,         \* indices of the templates the sender may use
          DeferPop      \* TRUE: the caller does not pop after every read; completed requests queue up

VARIABLES c,        \* the connection record
          stream,   \* bytes sent since the last restart (epoch)
          pos,      \* bytes of stream already received
          outs,     \* outputs since the last restart
          errv,     \* parse error reported by the last read, or NoErr
          nsent, last, nfds, epoch,
          arrived,  \* tags received since the last restart, in arrival order
          lastRead  \* ghost: [fds, outs] of the last read (for AttachRule)

vars == <<c, stream, pos, outs, errv, nsent, last, nfds, epoch, arrived, lastRead>>

Limit == NatDigits(LimitN)
NT == Len(Templates)
Class(t) == TemplateClass[t]

\* Guided sender: mostly near-valid conversations (any template may still start one).
Succ(l) ==
    IF ~Guided \/ l = 0 THEN TSet
    ELSE CASE Class(l) = "RL" -> {t \in TSet : Class(t) \in {"HD", "BL"}}
           [] Class(l) = "HD" -> {t \in TSet : Class(t) \in {"HD", "BL"}}
           [] Class(l) = "BL" -> {t \in TSet : Class(t) \in {"RL", "BD", "JK"}}
           [] Class(l) = "BD" -> {t \in TSet : Class(t) \in {"RL", "BD"}}
           [] OTHER -> TSet

NoRead == [fds |-> <<>>, outs |-> <<>>, had |-> <<>>]

Init == /\ c = InitConn(Limit)
        /\ stream = <<>> /\ pos = 0 /\ outs = <<>> /\ errv = NoErr
        /\ nsent = 0 /\ last = 0 /\ nfds = 0 /\ epoch = 0 /\ arrived = <<>> /\ lastRead = NoRead

Send(t) == /\ nsent < MaxLines
           /\ t \in Succ(last)
           /\ stream' = stream \o Templates[t]
           /\ nsent' = nsent + 1 /\ last' = t
           /\ UNCHANGED <<c, pos, outs, errv, nfds, epoch, arrived, lastRead>>

\* after every call the harness pops all requests and drains all output; a caller that defers
\* popping (DeferPop) leaves completed requests queued in the connection (at most 3 here)
Drained(cc) == [cc EXCEPT !.parsed = IF DeferPop THEN @ ELSE <<>>, !.respQ = <<>>, !.respBuf = <<>>]

Read(k, fds) ==
    /\ errv = NoErr
    /\ Len(c.parsed) < 3
    /\ k \in 1..(Len(stream) - pos)
    /\ k <= BUF - Len(c.buf)
    /\ LET r == TryRead(c, Slice(stream, pos + 1, pos + k), fds) IN
       /\ c' = Drained(r.c)
       /\ outs' = outs \o r.outs
       /\ errv' = r.res.e
       /\ lastRead' = [fds |-> fds, outs |-> r.outs, had |-> c.files]
    /\ pos' = pos + k
    /\ nfds' = nfds + Len(fds)
    /\ arrived' = arrived \o fds
    /\ UNCHANGED <<stream, nsent, last, epoch>>

ReadData == \E k \in 1..BUF : Read(k, <<>>) \/ (nfds < MaxFds /\ Read(k, <<nfds + 1>>))

\* recvmsg fails with EAGAIN / EINTR: nothing may change
ReadEmpty == /\ errv = NoErr
             /\ c' = TryReadErr(c).c
             /\ UNCHANGED <<stream, pos, outs, errv, nsent, last, nfds, epoch, arrived, lastRead>>

\* recvmsg returns 0 bytes (possibly with descriptors): reported, parser untouched
ReadEof == /\ errv = NoErr /\ nfds < MaxFds
           /\ c' = TryReadEof(c, <<nfds + 1>>).c
           /\ nfds' = nfds + 1 /\ arrived' = arrived \o <<nfds + 1>> /\ lastRead' = NoRead
           /\ UNCHANGED <<stream, pos, outs, errv, nsent, last, epoch>>

\* keep using the connection after a parse error: the unread rest is a new epoch
Restart == /\ errv # NoErr
           /\ stream' = From(stream, pos + 1) /\ pos' = 0 /\ outs' = <<>> /\ errv' = NoErr
           /\ arrived' = <<>> /\ lastRead' = NoRead /\ epoch' = IF epoch < 2 THEN epoch + 1 ELSE epoch
           /\ c' = PopAll(c)
           /\ UNCHANGED <<nsent, last, nfds>>

\* pop_parsed_request by a caller that defers popping
PopOne == /\ DeferPop /\ c.parsed # <<>>
          /\ c' = PopParsed(c)
          /\ UNCHANGED <<stream, pos, outs, errv, nsent, last, nfds, epoch, arrived, lastRead>>

Next == (\E t \in TSet : Send(t)) \/ ReadData \/ ReadEmpty \/ ReadEof \/ Restart \/ PopOne

Spec == Init /\ [][Next]_vars

-----------------------------------------------------------------------------
Consumed == Slice(stream, 1, pos)

\* C01 / C02 / C04 / C13: whatever the segmentation, the machine has produced exactly
\* what the declarative meaning assigns to the bytes consumed so far.
Refines == LET w == Whole(Consumed, Limit) IN NoFiles(outs) = w.outs /\ errv = w.err

\* C03: cursor arithmetic stays in range in every reachable state, also after errors
StructOK == CursorOK(c) /\ BodyAdmitted(c)

\* C11: after every parse error the parser part is that of a new connection
FreshAfterError == errv # NoErr => ParserPart(c) = FreshParser

\* C04: a delivered body has exactly the declared length, which is within the limit
BodyBound == \A i \in 1..Len(outs) :
                outs[i].k = "req" =>
                    /\ DigLeq(outs[i].r.h.cl, Limit)
                    /\ NatDigits(Len(outs[i].r.body)) = outs[i].r.h.cl
                    /\ outs[i].r.hasBody = (outs[i].r.h.cl # <<0>>)

\* C13: an interim response exactly for requests with Expect and 0 < cl <= limit, once,
\* before the request (checked on the declarative side too; here: on the machine's outputs)
ContinueRule ==
    \A i \in 1..Len(outs) :
        /\ outs[i].k = "req" => ((outs[i].r.h.expect /\ outs[i].r.h.cl # <<0>>)
                                  <=> (i > 1 /\ outs[i - 1].k = "cont" /\ outs[i - 1].v = outs[i].r.v))
        /\ outs[i].k = "cont" => (i = Len(outs) \/ outs[i + 1].k = "req")

\* C12: descriptors are conserved and ordered: those handed over with delivered requests,
\* followed by those still held, are exactly the arrivals, in arrival order
RECURSIVE FilesOf(_)
FilesOf(os) == IF os = <<>> THEN <<>> ELSE Head(os).r.files \o FilesOf(Tail(os))
FilesOrdered == errv = NoErr => FilesOf(outs) \o c.files = arrived

\* C01 / C12 with a caller that does not pop after every read: the queue of completed requests is
\* exactly the most recent deliveries, in delivery order, each with its own descriptors -- popping
\* hands out every request exactly once, in stream order
ParsedQueueOK ==
    LET rq == SelectSeq(outs, LAMBDA o : o.k = "req")
        n == Len(c.parsed)
    IN (DeferPop /\ errv = NoErr) => /\ n <= Len(rq)
                                     /\ \A i \in 1..n : c.parsed[i] = rq[Len(rq) - n + i].r

\* C12: the first request completed in or after the read that brought a descriptor gets it
AttachRule ==
    LET reqs == SelectSeq(lastRead.outs, LAMBDA o : o.k = "req") IN
    (errv = NoErr /\ Len(reqs) > 0) =>
        /\ reqs[1].r.files = lastRead.had \o lastRead.fds
        /\ \A i \in 2..Len(reqs) : reqs[i].r.files = <<>>
        /\ c.files = <<>>

(***************************************************************************)
(* Vacuity guard: every interesting region must be reached by the run.     *)
(* (TLC's -coverage cannot be used: its cost model inlines the operator    *)
(* call graph of this specification and runs out of memory.)  Each witness *)
(* prints its name once per worker; ./check fails a run that lacks one.    *)
(***************************************************************************)
WitnessNames == <<"body_delivered", "continue", "size_limit", "header_too_long", "reqline_too_long",
                  "bad_method", "bad_uri", "bad_version", "bad_format", "bad_value", "pipelined",
                  "delivery_after_error", "cr_lf_split", "partial_body", "carry_after_output", "files_delivered",
                  "ignored_header", "custom_header", "two_queued_with_files">>
ASSUME \A i \in 1..Len(WitnessNames) : TLCSet(i, FALSE)
Witness(i, cond) == IF cond /\ ~TLCGet(i) THEN TLCSet(i, TRUE) /\ PrintT(<<"WITNESS", WitnessNames[i]>>) ELSE TRUE
Reqs == SelectSeq(outs, LAMBDA o : o.k = "req")
Witnesses ==
    /\ Witness(1, \E i \in 1..Len(outs) : outs[i].k = "req" /\ outs[i].r.hasBody)
    /\ Witness(2, \E i \in 1..Len(outs) : outs[i].k = "cont")
    /\ Witness(3, errv.t = "SizeLimitExceeded")
    /\ Witness(4, errv.t = "H.SizeLimitExceeded")
    /\ Witness(5, errv.t = "InvalidRequest" /\ FindCRLF(Consumed, 1, Len(Consumed)) = 0)
    /\ Witness(6, errv.t = "InvalidHttpMethod")
    /\ Witness(7, errv.t = "InvalidUri")
    /\ Witness(8, errv.t = "InvalidHttpVersion")
    /\ Witness(9, errv.t = "H.InvalidFormat")
    /\ Witness(10, errv.t = "H.InvalidValue")
    /\ Witness(11, Len(Reqs) >= 2)
    /\ Witness(12, epoch >= 1 /\ Len(Reqs) >= 1)
    /\ Witness(13, c.buf # <<>> /\ c.buf[Len(c.buf)] = CR)
    /\ Witness(14, c.ph = "BD" /\ c.bodyVec # <<>>)
    /\ Witness(15, c.buf # <<>> /\ lastRead.outs # <<>>)
    /\ Witness(16, MaxFds = 0 \/ \E i \in 1..Len(outs) : outs[i].k = "req" /\ outs[i].r.files # <<>>)
    /\ Witness(17, \E i \in 1..Len(outs) : outs[i].k = "req" /\ outs[i].r.h.chunked)
    /\ Witness(18, \E i \in 1..Len(outs) : outs[i].k = "req" /\ outs[i].r.h.custom # <<>>)
    /\ Witness(19, Len(c.parsed) >= 2 /\ c.parsed[2].files # <<>>)

\* EAGAIN / EINTR change nothing (C01)
EmptyReadInert == [][ReadEmpty => UNCHANGED c]_vars

=============================================================================
