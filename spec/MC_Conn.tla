----------------------------- MODULE MC_Conn -----------------------------
(***************************************************************************)
(* Exhaustive model of one connection: a sender that appends line          *)
(* templates to the stream, and a reader that takes ANY chunk size the     *)
(* window allows, may see EAGAIN/EINTR in between, may receive             *)
(* descriptors with a read, and keeps reading after errors.                *)
(* Decides on the model: C01 (Refines for every segmentation), C02/C04/C13 *)
(* (the machine computes Whole), C03 (CursorOK, totality), C11 (Fresh      *)
(* after every parse error), C12 (descriptor conservation and order).      *)
(***************************************************************************)
EXTENDS HttpGrammar

CONSTANTS MaxLines,     \* number of templates the sender may append
          LimitN,       \* payload limit (a natural number)
          MaxFds,       \* descriptors that may arrive in total
          Guided        \* TRUE: the sender follows the successor relation below

VARIABLES c,        \* the connection record
          stream,   \* bytes sent since the last restart (epoch)
          pos,      \* bytes of stream already received
          outs,     \* outputs since the last restart
          errv,     \* parse error reported by the last read, or NoErr
          nsent, last, nfds,
          arrived,  \* tags received since the last restart, in arrival order
          lastRead  \* ghost: [fds, outs] of the last read (for AttachRule)

vars == <<c, stream, pos, outs, errv, nsent, last, nfds, arrived, lastRead>>

Limit == NatDigits(LimitN)
NT == Len(Templates)
Class(t) == TemplateClass[t]

\* Guided sender: mostly near-valid conversations (any template may still start one).
Succ(l) ==
    IF ~Guided \/ l = 0 THEN 1..NT
    ELSE CASE Class(l) = "RL" -> {t \in 1..NT : Class(t) \in {"HD", "BL"}}
           [] Class(l) = "HD" -> {t \in 1..NT : Class(t) \in {"HD", "BL"}}
           [] Class(l) = "BL" -> {t \in 1..NT : Class(t) \in {"RL", "BD", "JK"}}
           [] Class(l) = "BD" -> {t \in 1..NT : Class(t) \in {"RL", "BD"}}
           [] OTHER -> 1..NT

NoRead == [fds |-> <<>>, outs |-> <<>>, had |-> <<>>]

Init == /\ c = InitConn(Limit)
        /\ stream = <<>> /\ pos = 0 /\ outs = <<>> /\ errv = NoErr
        /\ nsent = 0 /\ last = 0 /\ nfds = 0 /\ arrived = <<>> /\ lastRead = NoRead

Send(t) == /\ nsent < MaxLines
           /\ t \in Succ(last)
           /\ stream' = stream \o Templates[t]
           /\ nsent' = nsent + 1 /\ last' = t
           /\ UNCHANGED <<c, pos, outs, errv, nfds, arrived, lastRead>>

\* after every call the harness pops all requests and drains all output
Drained(cc) == [cc EXCEPT !.parsed = <<>>, !.respQ = <<>>, !.respBuf = <<>>]

Read(k, fds) ==
    /\ errv = NoErr
    /\ k \in 1..(Len(stream) - pos)
    /\ k <= BUF - Len(c.buf)
    /\ LET r == TryRead(c, Slice(stream, pos + 1, pos + k), fds) IN
       /\ c' = Drained(r.c)
       /\ outs' = outs \o r.outs
       /\ errv' = r.res.e
       /\ lastRead' = [fds |-> fds, outs |-> r.outs, had |-> c.files]
    /\ pos' = pos + k
    /\ nfds' = nfds + Len(fds)
    /\ arrived' = arrived \o fds
    /\ UNCHANGED <<stream, nsent, last>>

ReadData == \E k \in 1..BUF : Read(k, <<>>) \/ (nfds < MaxFds /\ Read(k, <<nfds + 1>>))

\* recvmsg fails with EAGAIN / EINTR: nothing may change
ReadEmpty == /\ errv = NoErr
             /\ c' = TryReadErr(c).c
             /\ UNCHANGED <<stream, pos, outs, errv, nsent, last, nfds, arrived, lastRead>>

\* recvmsg returns 0 bytes (possibly with descriptors): reported, parser untouched
ReadEof == /\ errv = NoErr /\ nfds < MaxFds
           /\ c' = TryReadEof(c, <<nfds + 1>>).c
           /\ nfds' = nfds + 1 /\ arrived' = arrived \o <<nfds + 1>>
           /\ UNCHANGED <<stream, pos, outs, errv, nsent, last, lastRead>>

\* keep using the connection after a parse error: the unread rest is a new epoch
Restart == /\ errv # NoErr
           /\ stream' = From(stream, pos + 1) /\ pos' = 0 /\ outs' = <<>> /\ errv' = NoErr
           /\ arrived' = <<>> /\ lastRead' = NoRead
           /\ UNCHANGED <<c, nsent, last, nfds>>

Next == (\E t \in 1..NT : Send(t)) \/ ReadData \/ ReadEmpty \/ ReadEof \/ Restart

Spec == Init /\ [][Next]_vars

-----------------------------------------------------------------------------
Consumed == Slice(stream, 1, pos)

\* C01 / C02 / C04 / C13: whatever the segmentation, the machine has produced exactly
\* what the declarative meaning assigns to the bytes consumed so far.
Refines == LET w == Whole(Consumed, Limit) IN NoFiles(outs) = w.outs /\ errv = w.err

\* C03: cursor arithmetic stays in range in every reachable state, also after errors
StructOK == CursorOK(c)

\* C11: after every parse error the parser part is that of a new connection
FreshAfterError == errv # NoErr => ParserPart(c) = FreshParser

\* C04: a delivered body has exactly the declared length, which is within the limit
BodyBound == \A i \in 1..Len(outs) :
                outs[i].k = "req" =>
                    /\ DigLeq(outs[i].r.h.cl, Limit)
                    /\ NatDigits(Len(outs[i].r.body)) = outs[i].r.h.cl
                    /\ outs[i].r.hasBody = (outs[i].r.h.cl # <<0>>)

\* C13: an interim response exactly for requests with Expect and 0 < cl <= limit, once,
\* before the request (checked on the declarative side too; here: on the machine's outputs)
ContinueRule ==
    \A i \in 1..Len(outs) :
        /\ outs[i].k = "req" => ((outs[i].r.h.expect /\ outs[i].r.h.cl # <<0>>)
                                  <=> (i > 1 /\ outs[i - 1].k = "cont" /\ outs[i - 1].v = outs[i].r.v))
        /\ outs[i].k = "cont" => (i = Len(outs) \/ outs[i + 1].k = "req")

\* C12: descriptors are conserved and ordered: those handed over with delivered requests,
\* followed by those still held, are exactly the arrivals, in arrival order
RECURSIVE FilesOf(_)
FilesOf(os) == IF os = <<>> THEN <<>> ELSE Head(os).r.files \o FilesOf(Tail(os))
FilesOrdered == errv = NoErr => FilesOf(outs) \o c.files = arrived

\* C12: the first request completed in or after the read that brought a descriptor gets it
AttachRule ==
    LET reqs == SelectSeq(lastRead.outs, LAMBDA o : o.k = "req") IN
    (errv = NoErr /\ Len(reqs) > 0) =>
        /\ reqs[1].r.files = lastRead.had \o lastRead.fds
        /\ \A i \in 2..Len(reqs) : reqs[i].r.files = <<>>
        /\ c.files = <<>>

\* EAGAIN / EINTR change nothing (C01)
EmptyReadInert == [][ReadEmpty => UNCHANGED c]_vars

=============================================================================
