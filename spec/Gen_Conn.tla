----------------------------- MODULE Gen_Conn -----------------------------
(***************************************************************************)
(* Specification -> implementation direction for the connection machine.   *)
(* MC_Conn plus a history variable: every behaviour that consumes its      *)
(* whole stream is printed as one JSON line -- the chunk delivered by each *)
(* read with the result, the requests and the interim responses the        *)
(* specification produces for it.  The harness replays the reads into the  *)
(* real HttpConnection (small build, BUF = 32, byte for byte, no           *)
(* concretisation step) and compares after every step.  Run with           *)
(*   tlc -simulate num=N -depth D   (random walks of the guided sender).   *)
(***************************************************************************)
EXTENDS MC_Conn, Json

VARIABLE hist
gvars == <<c, stream, pos, outs, errv, nsent, last, nfds, epoch, arrived, lastRead, hist>>

Finished == nsent = MaxLines /\ pos = Len(stream)

Brief(o) == [k |-> o.k, v |-> o.v, m |-> o.r.m, uri |-> o.r.uri, cl |-> o.r.h.cl, body |-> o.r.body,
             expect |-> o.r.h.expect, ncustom |-> Len(o.r.h.custom)]

GInit == Init /\ hist = <<>>

GSend == (\E t \in TSet : Send(t)) /\ UNCHANGED hist
GRead == /\ ReadData
         /\ hist' = Append(hist, [a |-> "read", bytes |-> Slice(stream, pos + 1, pos'),
                                  err |-> errv'.t,
                                  outs |-> [i \in 1..Len(lastRead'.outs) |-> Brief(lastRead'.outs[i])]])
LastIsEmpty == IF hist = <<>> THEN FALSE ELSE hist[Len(hist)].a = "empty"
GEmpty == ReadEmpty /\ Len(hist) < 40 /\ ~LastIsEmpty /\ hist' = Append(hist, [a |-> "empty"])
GRestart == Restart /\ UNCHANGED hist

GNext == ~Finished /\ (GSend \/ GRead \/ GEmpty \/ GRestart)
GSpec == GInit /\ [][GNext]_gvars

Emit == Finished => PrintT("REPLAY " \o ToJson(hist))

=============================================================================
