//! Function-level cases: every public parsing entry point, the response builder, the router
//! and the pair (one-shot parser, connection).  One trace event per case: inputs + outputs.
use crate::obs;
use crate::respbuild;
use crate::stream::{ReadScript, ScriptStream};
use micro_http::{
    Encoding, EndpointHandler, Headers, HttpConnection, HttpRoutes, MediaType, Method, Request, RequestError, Response, StatusCode,
    Version,
};
use serde_json::{json, Value};
use std::io::Write;
use std::panic::{catch_unwind, AssertUnwindSafe};
use std::sync::{Arc, Mutex};

fn req_res(r: &Result<(), RequestError>) -> Value {
    match r {
        Ok(()) => json!({"k": "ok", "e": obs::no_err()}),
        Err(RequestError::HeaderError(micro_http::HttpHeaderError::UnsupportedValue(a, b))) => {
            json!({"k": "ignored", "e": obs::err("H.UnsupportedValue", a.as_bytes(), b.as_bytes(), 0, 0)})
        }
        Err(e) => json!({"k": "fatal", "e": obs::request_error(e)}),
    }
}

/// A sink that accepts at most the scripted number of bytes per write call.
struct ChunkSink {
    sizes: Vec<usize>,
    i: usize,
    out: Vec<u8>,
    calls: usize,
}
impl Write for ChunkSink {
    fn write(&mut self, buf: &[u8]) -> std::io::Result<usize> {
        self.calls += 1;
        let k = if self.sizes.is_empty() { buf.len() } else { self.sizes[self.i % self.sizes.len()].max(1) };
        self.i += 1;
        let k = k.min(buf.len());
        self.out.extend_from_slice(&buf[..k]);
        Ok(k)
    }
    fn flush(&mut self) -> std::io::Result<()> {
        Ok(())
    }
}

struct Rec {
    id: u64,
    log: Arc<Mutex<Vec<u64>>>,
    code: u64,
    text: bool,
    server: String,
}
impl EndpointHandler<()> for Rec {
    fn handle_request(&self, _req: &Request, _arg: &()) -> Response {
        self.log.lock().unwrap().push(self.id);
        let mut r = Response::new(Version::Http11, respbuild::status(self.code));
        r.set_body(micro_http::Body::new(format!("h{}", self.id)));
        // a handler may set its own content type / server identity: the router stamps over them
        if self.text {
            r.set_content_type(MediaType::PlainText);
        }
        if !self.server.is_empty() {
            r.set_server(&self.server);
        }
        r
    }
}

fn one_request(bytes: &[u8], max: Option<usize>) -> Value {
    match Request::try_from(bytes, max) {
        Ok(r) => json!({"ok": true, "r": obs::request(&r), "e": obs::no_err()}),
        Err(e) => json!({"ok": false, "r": {"none": true}, "e": obs::request_error(&e)}),
    }
}

/// feeds all bytes to a connection with maximal reads; collects every request and the first error
fn conn_on(bytes: &[u8], limit: usize, cuts: &[usize]) -> Value {
    let stream = ScriptStream::new();
    let mut conn = HttpConnection::new(stream.clone());
    conn.set_payload_max_size(limit);
    let mut popped = vec![];
    let mut res = json!({"k": "Ok", "e": obs::no_err()});
    let mut guard = 0;
    let mut fed = 0;
    let mut cuts: Vec<usize> = cuts.iter().cloned().filter(|c| *c > 0 && *c < bytes.len()).collect();
    cuts.push(bytes.len());
    let mut ci = 0;
    loop {
        if stream.0.borrow().rxq.is_empty() {
            // the peer's next segment arrives
            if ci >= cuts.len() || fed >= bytes.len() {
                break;
            }
            let upto = cuts[ci].max(fed);
            ci += 1;
            stream.0.borrow_mut().rxq.extend(bytes[fed..upto].iter());
            fed = upto;
            if stream.0.borrow().rxq.is_empty() {
                continue;
            }
        }
        if guard >= 100_000 {
            break;
        }
        guard += 1;
        stream.0.borrow_mut().next_read = Some(ReadScript::Data(vec![]));
        let r = conn.try_read();
        while let Some(rq) = conn.pop_parsed_request() {
            popped.push(obs::request(&rq));
        }
        if r.is_err() {
            res = obs::conn_result(&r);
            break;
        }
    }
    let d = conn.verif_digest();
    let clean = d.phase == 0 && d.read_cursor == 0 && !d.pending && stream.0.borrow().rxq.is_empty();
    json!({"popped": popped, "res": res, "clean": clean})
}

pub fn run_case(case: &Value, out: &mut dyn Write) {
    let kind = case["e"].as_str().unwrap_or("");
    let mut line = case.clone();
    let r = catch_unwind(AssertUnwindSafe(|| -> Value {
        match kind {
            "hline" => {
                let mut h = Headers::default();
                let mut results = vec![];
                for l in case["lines"].as_array().unwrap() {
                    let r = h.parse_header_line(&obs::from_bytes(l));
                    results.push(req_res(&r));
                }
                json!({"results": results, "h": obs::headers(&h)})
            }
            "hblock" => match Headers::try_from(&obs::from_bytes(&case["bytes"])) {
                Ok(h) => json!({"ok": true, "h": obs::headers(&h), "err": obs::no_err()}),
                Err(e) => json!({"ok": false, "h": obs::headers(&Headers::default()), "err": obs::request_error(&e)}),
            },
            "enc" => json!({"res": req_res(&Encoding::try_from(&obs::from_bytes(&case["bytes"])))}),
            "media" => match MediaType::try_from(&obs::from_bytes(&case["bytes"])) {
                Ok(m) => json!({"res": obs::media(m), "raw": obs::bytes(m.as_str().as_bytes())}),
                Err(_) => json!({"res": "bad", "raw": []}),
            },
            "method" => match Method::try_from(&obs::from_bytes(&case["bytes"])) {
                Ok(m) => json!({"res": obs::method(m), "raw": obs::bytes(m.raw()), "str": obs::bytes(m.to_str().as_bytes())}),
                Err(_) => json!({"res": "bad", "raw": [], "str": []}),
            },
            "version" => match Version::try_from(&obs::from_bytes(&case["bytes"])) {
                Ok(v) => json!({"res": obs::version(v), "raw": obs::bytes(v.raw())}),
                Err(_) => json!({"res": "bad", "raw": []}),
            },
            "status" => {
                let c = case["code"].as_u64().unwrap();
                let s: StatusCode = respbuild::status(c);
                json!({"raw": obs::bytes(&s.raw()[..])})
            }
            "abspath" => {
                let mut b = b"GET ".to_vec();
                b.extend(obs::from_bytes(&case["uri"]));
                b.extend(b" HTTP/1.1\r\n\r\n");
                match Request::try_from(&b, None) {
                    Ok(r) => json!({"ok": true, "path": obs::bytes(r.uri().get_abs_path().as_bytes())}),
                    Err(_) => json!({"ok": false, "path": []}),
                }
            }
            "oneshot" => {
                let bytes = obs::from_bytes(&case["bytes"]);
                let max = case["max"].as_i64().unwrap_or(-1);
                let limit = obs::from_digits(&case["limit"]) as usize;
                let cuts: Vec<usize> = case["cuts"].as_array().map(|a| a.iter().map(|x| x.as_u64().unwrap_or(0) as usize).collect()).unwrap_or_default();
                json!({"one": one_request(&bytes, if max < 0 { None } else { Some(max as usize) }), "conn": conn_on(&bytes, limit, &cuts)})
            }
            "resp" => {
                let r = respbuild::build(&case["resp"]);
                let sizes: Vec<usize> = case["sink"].as_array().map(|a| a.iter().map(|x| x.as_u64().unwrap_or(1) as usize).collect()).unwrap_or_default();
                let mut sink = ChunkSink { sizes, i: 0, out: vec![], calls: 0 };
                let wr = r.write_all(&mut sink);
                let mut whole = vec![];
                r.write_all(&mut whole).unwrap();
                json!({"bytes": obs::bytes(&sink.out), "whole": obs::bytes(&whole), "wrote_ok": wr.is_ok(),
                       "cl": r.content_length(), "ctype": obs::media(r.content_type()), "depr": r.deprecation(),
                       "v": obs::version(r.http_version()), "body": obs::bytes(&r.body().map(|b| b.body).unwrap_or_default()),
                       "allow": r.allow().iter().map(|m| obs::method(*m)).collect::<Vec<_>>(),
                       "status": String::from_utf8_lossy(&r.status().raw()[..]).parse::<u64>().unwrap_or(0)})
            }
            "router" => {
                let log = Arc::new(Mutex::new(vec![]));
                let sid = String::from_utf8_lossy(&obs::from_bytes(&case["server_id"])).to_string();
                let prefix = String::from_utf8_lossy(&obs::from_bytes(&case["prefix"])).to_string();
                let mut routes: HttpRoutes<()> = HttpRoutes::new(sid, prefix);
                let mut added = vec![];
                for (i, rt) in case["routes"].as_array().unwrap().iter().enumerate() {
                    let path = String::from_utf8_lossy(&obs::from_bytes(&rt["path"])).to_string();
                    let h = Rec { id: i as u64 + 1, log: log.clone(), code: rt["code"].as_u64().unwrap_or(200),
                                  text: rt["ctype"].as_str() == Some("text"), server: rt["server"].as_str().unwrap_or("").to_string() };
                    let r = routes.add_route(respbuild::method(rt["m"].as_str().unwrap()), path, Box::new(h));
                    added.push(r.is_ok());
                }
                let mut calls = vec![];
                for rq in case["requests"].as_array().unwrap() {
                    let mut b = rq["m"].as_str().unwrap().as_bytes().to_vec();
                    b.push(b' ');
                    b.extend(obs::from_bytes(&rq["uri"]));
                    b.extend(b" HTTP/1.1\r\n\r\n");
                    match Request::try_from(&b, None) {
                        Ok(req) => {
                            log.lock().unwrap().clear();
                            let resp = routes.handle_http_request(&req, &());
                            let mut ser = vec![];
                            resp.write_all(&mut ser).unwrap();
                            calls.push(json!({"parsed": true, "invoked": log.lock().unwrap().clone(), "ser": obs::bytes(&ser)}));
                        }
                        Err(_) => calls.push(json!({"parsed": false, "invoked": [], "ser": []})),
                    }
                }
                json!({"added": added, "calls": calls})
            }
            _ => json!({}),
        }
    }));
    match r {
        Ok(o) => {
            line["out"] = o;
            line["panic"] = json!(false);
        }
        Err(_) => {
            line["out"] = json!({"none": true});
            line["panic"] = json!(true);
        }
    }
    writeln!(out, "{}", line).unwrap();
}
