//! Builds a real `Response` from a JSON description of public builder calls.
use crate::obs;
use micro_http::{Body, MediaType, Method, Response, StatusCode, Version};
use serde_json::Value;

pub fn status(code: u64) -> StatusCode {
    match code {
        100 => StatusCode::Continue,
        200 => StatusCode::OK,
        204 => StatusCode::NoContent,
        400 => StatusCode::BadRequest,
        401 => StatusCode::Unauthorized,
        404 => StatusCode::NotFound,
        405 => StatusCode::MethodNotAllowed,
        413 => StatusCode::PayloadTooLarge,
        500 => StatusCode::InternalServerError,
        501 => StatusCode::NotImplemented,
        _ => StatusCode::ServiceUnavailable,
    }
}

pub const CODES: [u64; 11] = [100, 200, 204, 400, 401, 404, 405, 413, 500, 501, 503];

pub fn version(v: &str) -> Version {
    if v == "1.0" {
        Version::Http10
    } else {
        Version::Http11
    }
}

pub fn method(m: &str) -> Method {
    match m {
        "GET" => Method::Get,
        "PUT" => Method::Put,
        _ => Method::Patch,
    }
}

pub fn media(m: &str) -> MediaType {
    if m == "text" {
        MediaType::PlainText
    } else {
        MediaType::ApplicationJson
    }
}

pub fn apply(r: &mut Response, op: &Value) {
    match op["op"].as_str().unwrap_or("") {
        "body" => r.set_body(Body::new(obs::from_bytes(&op["bytes"]))),
        "ctype" => r.set_content_type(media(op["m"].as_str().unwrap_or("json"))),
        "depr" => r.set_deprecation(),
        "enc" => r.set_encoding(),
        "server" => {
            let s = String::from_utf8_lossy(&obs::from_bytes(&op["s"])).to_string();
            r.set_server(&s)
        }
        "allow" => r.set_allow(
            op["ms"].as_array().map(|a| a.iter().map(|m| method(m.as_str().unwrap_or("GET"))).collect()).unwrap_or_default(),
        ),
        "allow1" => r.allow_method(method(op["m"].as_str().unwrap_or("GET"))),
        "cl" => r.set_content_length(if op["has"].as_bool().unwrap_or(false) {
            Some(op["n"].as_i64().unwrap_or(0) as i32)
        } else {
            None
        }),
        _ => {}
    }
}

pub fn build(d: &Value) -> Response {
    let mut r = Response::new(version(d["v"].as_str().unwrap_or("1.1")), status(d["code"].as_u64().unwrap_or(200)));
    if let Some(ops) = d["ops"].as_array() {
        for op in ops {
            apply(&mut r, op);
        }
    }
    r
}
