//! Request grammar: structured requests, single-point corruptions, segmentations.
use rand::rngs::StdRng;
use rand::seq::SliceRandom;
use rand::Rng;

#[derive(Clone, Debug)]
pub struct Req {
    pub method: Vec<u8>,
    pub uri: Vec<u8>,
    pub version: Vec<u8>,
    /// header lines without their CRLF
    pub headers: Vec<Vec<u8>>,
    pub body: Vec<u8>,
}

pub const CRLF: &[u8] = b"\r\n";

impl Req {
    pub fn request_line(&self) -> Vec<u8> {
        let mut v = self.method.clone();
        v.push(b' ');
        v.extend(&self.uri);
        v.push(b' ');
        v.extend(&self.version);
        v
    }
    pub fn bytes(&self) -> Vec<u8> {
        let mut v = self.request_line();
        v.extend(CRLF);
        for h in &self.headers {
            v.extend(h);
            v.extend(CRLF);
        }
        v.extend(CRLF);
        v.extend(&self.body);
        v
    }
    pub fn head_len(&self) -> usize {
        self.bytes().len() - self.body.len()
    }
}

pub const METHODS: [&[u8]; 3] = [b"GET", b"PUT", b"PATCH"];
pub const VERSIONS: [&[u8]; 2] = [b"HTTP/1.0", b"HTTP/1.1"];

/// Unicode white space in UTF-8 (what str::trim removes)
pub const WS: [&[u8]; 8] = [b" ", b"\t", b"\xc2\xa0", b"\xe2\x80\x83", b"\x0b", b"\xc2\x85", b"\xe3\x80\x80", b"\x0c"];

pub fn rand_case(rng: &mut StdRng, s: &[u8]) -> Vec<u8> {
    s.iter()
        .map(|c| if rng.gen_bool(0.5) { c.to_ascii_uppercase() } else { c.to_ascii_lowercase() })
        .collect()
}

pub fn pad(rng: &mut StdRng, s: &[u8]) -> Vec<u8> {
    let mut v = vec![];
    for _ in 0..rng.gen_range(0..3) {
        v.extend(*WS.choose(rng).unwrap());
    }
    v.extend(s);
    for _ in 0..rng.gen_range(0..3) {
        v.extend(*WS.choose(rng).unwrap());
    }
    v
}

pub fn header(rng: &mut StdRng, name: &[u8], value: &[u8], fancy: bool) -> Vec<u8> {
    let mut v = if fancy {
        let cased = rand_case(rng, name);
        pad(rng, &cased)
    } else {
        name.to_vec()
    };
    v.push(b':');
    if fancy {
        v.extend(pad(rng, value));
    } else {
        v.push(b' ');
        v.extend(value);
    }
    v
}

pub fn pick(rng: &mut StdRng, xs: &[&[u8]]) -> Vec<u8> {
    xs[rng.gen_range(0..xs.len())].to_vec()
}

pub fn rand_uri(rng: &mut StdRng, max: usize) -> Vec<u8> {
    let pool: [&[u8]; 8] = [b"/", b"/a", b"/machine-config", b"http://localhost/home", b"http://h", b"*", "/caf\u{e9}".as_bytes(), b"/a?b=c&d=%20"];
    let mut u = pool.choose(rng).unwrap().to_vec();
    if max > u.len() && rng.gen_bool(0.3) {
        let extra = rng.gen_range(0..(max - u.len()).min(40));
        for _ in 0..extra {
            u.push(*b"abcxyz/._-%~".choose(rng).unwrap());
        }
    }
    u
}

pub fn rand_body(rng: &mut StdRng, len: usize) -> Vec<u8> {
    let style = rng.gen_range(0..4);
    (0..len)
        .map(|i| match style {
            0 => b'a' + (i % 26) as u8,
            1 => *b"\r\n\r\nGET / HTTP/1.1\r\n\r\n".get(i % 22).unwrap(),
            2 => rng.gen(),
            _ => *b"{\"k\": 1}\r\n".get(i % 10).unwrap(),
        })
        .collect()
}

pub struct Opts {
    pub max_body: usize,
    pub max_uri: usize,
    pub fancy: bool,
    pub max_extra_headers: usize,
    pub expect_prob: f64,
}

impl Default for Opts {
    fn default() -> Self {
        Opts { max_body: 40, max_uri: 30, fancy: true, max_extra_headers: 3, expect_prob: 0.3 }
    }
}

/// A well-formed request (accepted by the connection when within limits).
pub fn valid(rng: &mut StdRng, o: &Opts) -> Req {
    let method = METHODS.choose(rng).unwrap().to_vec();
    let version = VERSIONS.choose(rng).unwrap().to_vec();
    let uri = rand_uri(rng, o.max_uri);
    let blen = if rng.gen_bool(0.5) { 0 } else { rng.gen_range(0..=o.max_body) };
    let body = rand_body(rng, blen);
    let mut headers = vec![];
    let nextra = rng.gen_range(0..=o.max_extra_headers);
    for _ in 0..nextra {
        let (name, vals): (&[u8], Vec<&[u8]>) = match rng.gen_range(0..10) {
            0 => (b"Accept", vec![b"text/plain", b"application/json", b"image/png", b""]),
            1 => (b"Content-Type", vec![b"text/plain", b"application/json", b"x/y"]),
            2 => (b"Transfer-Encoding", vec![b"chunked", b"identity", b"gzip"]),
            3 => (b"Server", vec![b"anything at all"]),
            4 => (b"Accept-Encoding", vec![b"gzip", b"identity", b"gzip, identity;q=1", b"*;q=0, identity", b"deflate , br"]),
            5 => (b"Expect", vec![b"100-continue", b"103-checkpoint", b""]),
            6 => (b"Host", vec![b"localhost:8080"]),
            7 => (b"X-Tag", vec![b"a", b"b: c", "caf\u{e9}".as_bytes(), b""]),
            8 => ("X-\u{e9}".as_bytes(), vec![b"v"]),
            _ => (b"X-Tag", vec![b"second"]),
        };
        let v = pick(rng, &vals);
        let h = header(rng, name, &v, o.fancy);
        headers.push(h);
    }
    if blen > 0 || rng.gen_bool(0.2) {
        // possibly an earlier, overridden Content-Length (last acceptable occurrence wins)
        if rng.gen_bool(0.15) {
            headers.push(header(rng, b"Content-Length", b"7", o.fancy));
        }
        let mut val = blen.to_string().into_bytes();
        if rng.gen_bool(0.1) {
            val = [b"00".to_vec(), val].concat();
        }
        headers.push(header(rng, b"Content-Length", &val, o.fancy));
    }
    if rng.gen_bool(o.expect_prob) {
        let pos = rng.gen_range(0..=headers.len());
        headers.insert(pos, header(rng, b"Expect", b"100-continue", o.fancy));
    }
    Req { method, uri, version, headers, body }
}

/// Every single-point corruption of a request named in C02 (name, bytes).
pub fn corruptions(r: &Req) -> Vec<(&'static str, Vec<u8>)> {
    let mut out: Vec<(&'static str, Vec<u8>)> = vec![];
    let with = |f: &dyn Fn(&mut Req)| {
        let mut c = r.clone();
        f(&mut c);
        c.bytes()
    };
    out.push(("method_wrong", with(&|c| c.method = b"POST".to_vec())));
    out.push(("method_empty", with(&|c| c.method = vec![])));
    out.push(("method_lower", with(&|c| c.method = c.method.to_ascii_lowercase())));
    out.push(("method_prefix", with(&|c| c.method = b"GE".to_vec())));
    out.push(("method_suffix", with(&|c| c.method.push(b'X'))));
    out.push(("uri_empty", with(&|c| c.uri = vec![])));
    out.push(("uri_nonutf8", with(&|c| c.uri = b"/\xff\xfe".to_vec())));
    out.push(("uri_trunc_utf8", with(&|c| c.uri = b"/\xe2\x82".to_vec())));
    out.push(("uri_space", with(&|c| c.uri = b"/a b".to_vec())));
    out.push(("version_wrong", with(&|c| c.version = b"HTTP/2.0".to_vec())));
    out.push(("version_lower", with(&|c| c.version = b"http/1.1".to_vec())));
    out.push(("version_empty", with(&|c| c.version = vec![])));
    out.push(("version_trailing_sp", with(&|c| c.version.push(b' '))));
    // missing / doubled SP
    {
        let mut b = r.method.clone();
        b.extend(&r.uri);
        b.push(b' ');
        b.extend(&r.version);
        out.push(("missing_sp1", [b, CRLF.to_vec(), tail_after_line(r)].concat()));
        let mut b = r.method.clone();
        b.push(b' ');
        b.extend(&r.uri);
        b.extend(&r.version);
        out.push(("missing_sp2", [b, CRLF.to_vec(), tail_after_line(r)].concat()));
        let mut b = r.method.clone();
        b.extend(b"  ");
        b.extend(&r.uri);
        b.push(b' ');
        b.extend(&r.version);
        out.push(("double_sp1", [b, CRLF.to_vec(), tail_after_line(r)].concat()));
        let mut b = r.method.clone();
        b.push(b' ');
        b.extend(&r.uri);
        b.extend(b"  ");
        b.extend(&r.version);
        out.push(("double_sp2", [b, CRLF.to_vec(), tail_after_line(r)].concat()));
    }
    // stray CR / LF
    {
        let full = r.bytes();
        let rl = r.request_line().len();
        let mut b = full.clone();
        b[rl + 1] = b'x'; // CR x instead of CR LF after the request line
        out.push(("rl_cr_only", b));
        let mut b = full.clone();
        b.remove(rl); // LF only
        out.push(("rl_lf_only", b));
        let mut b = full.clone();
        b.insert(rl / 2, b'\r');
        out.push(("rl_stray_cr", b));
        let mut b = full.clone();
        b.insert(rl / 2, b'\n');
        out.push(("rl_stray_lf", b));
        let mut b = full.clone();
        b.insert(0, b'\n');
        out.push(("leading_lf", b));
        let mut b = full.clone();
        b.splice(0..0, CRLF.iter().cloned());
        out.push(("leading_crlf", b));
    }
    // header corruptions: add one bad header line at the front / end of the block
    let bad_headers: [(&'static str, &[u8]); 27] = [
        ("hdr_nocolon", b"NoColonHere"),
        ("hdr_nonutf8", b"X-Bad: \xff\xfe"),
        ("hdr_nonutf8_name", b"X-\xc3: v"),
        ("hdr_trunc_utf8", b"X-Bad: \xe2\x82"),
        ("hdr_overlong", b"X-Bad: \xc0\xaf"),
        ("hdr_surrogate", b"X-Bad: \xed\xa0\x80"),
        ("hdr_f5", b"X-Bad: \xf5\x80\x80\x80"),
        ("cl_neg", b"Content-Length: -1"),
        ("cl_empty", b"Content-Length: "),
        ("cl_u32max_plus1", b"Content-Length: 4294967296"),
        ("cl_huge", b"Content-Length: 99999999999999999999"),
        ("cl_alpha", b"Content-Length: 12a"),
        ("cl_plus_only", b"Content-Length: +"),
        ("cl_inner_space", b"Content-Length: 1 2"),
        ("cl_hex", b"content-length:0x10"),
        ("ae_empty", b"Accept-Encoding:"),
        ("ae_identity_q0", b"Accept-Encoding: gzip, identity;q=0"),
        ("ae_star_q0", b"Accept-Encoding: *;q=0"),
        ("ae_star_q0_padded", b"accept-encoding:  gzip ,\t*;q=0 "),
        ("ae_nonutf8", b"Accept-Encoding: \xff"),
        ("hdr_empty_name", b": value"),
        ("hdr_cr_inside", b"X-A: a\rb"),
        ("hdr_lf_inside", b"X-A: a\nb"),
        ("hdr_cr_before_crlf", b"X-Trace: 17\r"),
        ("hdr_crcr_before_crlf", b"X-Trace: 17\r\r"),
        ("hdr_lf_hides_header", b"X-Trace: abc\nX-Other: second"),
        ("hdr_lf_hides_cl", b"X-Trace: abc\nContent-Length: 3"),
    ];
    for (name, line) in bad_headers.iter() {
        for at_end in [false, true] {
            let mut c = r.clone();
            if at_end {
                c.headers.push(line.to_vec());
            } else {
                c.headers.insert(0, line.to_vec());
            }
            out.push((name, c.bytes()));
        }
    }
    // numeric edge values of Content-Length that are acceptable at header level
    for (name, val) in [("cl_007", &b"007"[..]), ("cl_plus5", b"+5"), ("cl_zero", b"0"), ("cl_zeros", b"0000")] {
        let mut c = r.clone();
        c.headers.retain(|h| !h.to_ascii_lowercase().starts_with(b"content-length") && !String::from_utf8_lossy(h).to_lowercase().contains("content-length"));
        c.headers.push([b"Content-Length: ", val].concat());
        let n: usize = String::from_utf8_lossy(val).trim_start_matches('+').parse().unwrap();
        c.body = (0..n).map(|i| b'0' + (i % 10) as u8).collect();
        out.push((name, c.bytes()));
    }
    {
        let mut c = r.clone();
        c.headers.push(b"Content-Length: 4294967295".to_vec());
        out.push(("cl_u32max", c.bytes()));
    }
    // body shorter / longer than declared
    if !r.body.is_empty() {
        let mut b = r.bytes();
        b.pop();
        out.push(("body_short", b));
    }
    {
        let mut b = r.bytes();
        b.extend(b"EXTRA");
        out.push(("body_long", b));
    }
    // missing blank line
    {
        let mut v = r.request_line();
        v.extend(CRLF);
        for h in &r.headers {
            v.extend(h);
            v.extend(CRLF);
        }
        v.extend(&r.body);
        out.push(("no_blank_line", v));
    }
    out
}

fn tail_after_line(r: &Req) -> Vec<u8> {
    let full = r.bytes();
    full[r.request_line().len() + 2..].to_vec()
}

/// Cuts a stream at the given positions (sorted, within 1..len-1).
pub fn cut(stream: &[u8], cuts: &[usize]) -> Vec<Vec<u8>> {
    let mut out = vec![];
    let mut prev = 0;
    for &c in cuts {
        if c > prev && c < stream.len() {
            out.push(stream[prev..c].to_vec());
            prev = c;
        }
    }
    out.push(stream[prev..].to_vec());
    out
}

pub fn random_cuts(rng: &mut StdRng, len: usize, n: usize) -> Vec<usize> {
    if len < 2 {
        return vec![];
    }
    let mut c: Vec<usize> = (0..n).map(|_| rng.gen_range(1..len)).collect();
    c.sort();
    c.dedup();
    c
}

/// Positions worth cutting at: around every CR / LF, and around multiples of the window.
pub fn interesting_cuts(stream: &[u8], buf: usize) -> Vec<usize> {
    let mut v = vec![];
    for (i, b) in stream.iter().enumerate() {
        if *b == b'\r' || *b == b'\n' {
            for d in 0..=2 {
                if i + d >= 1 && i + d < stream.len() {
                    v.push(i + d);
                }
            }
            if i >= 1 {
                v.push(i);
            }
        }
    }
    let mut k = buf;
    while k < stream.len() + 2 {
        for d in [k - 1, k, k + 1] {
            if d >= 1 && d < stream.len() {
                v.push(d);
            }
        }
        k += buf;
    }
    v.sort();
    v.dedup();
    v
}
