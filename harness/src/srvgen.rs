//! Random histories for the server-level checks.  The generator only knows what a real
//! application/clients would know (which requests it holds, what it has sent).
use crate::obs;
use crate::srvexec::{tag_uri, Driver};
use rand::rngs::StdRng;
use rand::seq::SliceRandom;
use rand::{Rng, SeedableRng};
use serde_json::{json, Value};
use std::collections::VecDeque;
use std::io::Write;

#[derive(Clone)]
pub struct Domain {
    pub name: &'static str,
    pub nclients: (usize, usize),
    /// clients 1..=good never close / shut down and send only well-formed requests
    pub good: usize,
    pub steps: usize,
    pub kill: bool,
    pub flush: bool,
    pub setlimit: bool,
    pub big_pad: bool,
    pub close_weight: u32,
    pub eager_poll: f64,
    /// probability that a send carries a further pipelined request
    pub pipeline: f64,
    /// weight of answering a held request (lower = more requests stay in flight)
    pub respond_weight: u32,
    /// large responses to clients that have stopped reading
    pub big_to_nonreaders: bool,
    /// probability that a send carries descriptors (SCM_RIGHTS)
    pub fds: f64,
    /// requests() is sometimes called while nothing is ready and interrupted by a signal (EINTR)
    pub eintr: bool,
    /// clients act INSIDE requests() calls, between two elements of a batch (hook at_event)
    pub race: bool,
}

pub fn domain(prop: &str, small: bool) -> Domain {
    let d = Domain { name: "C08", nclients: (1, 4), good: 99, steps: 60, kill: false, flush: true, setlimit: false,
                     big_pad: false, close_weight: 0, eager_poll: 0.5, pipeline: 0.2, respond_weight: 5, big_to_nonreaders: false, fds: 0.0, eintr: true, race: false };
    match prop {
        "C07" => Domain { name: "C07", nclients: (3, 5), good: 0, close_weight: 6, flush: true, ..d },
        "C08" => d,
        "C08big" => Domain { name: "C08big", nclients: (1, 2), big_pad: true, flush: false, steps: 120, ..d },
        "C09" => Domain { name: "C09", nclients: (2, 4), good: 1, close_weight: 4, ..d },
        "C09slow" => Domain { name: "C09slow", nclients: (2, 3), good: 1, close_weight: 1, big_to_nonreaders: true, flush: false, steps: 50, ..d },
        "C07pipe" => Domain { name: "C07pipe", nclients: (1, 2), good: 0, close_weight: 1, pipeline: 0.7, respond_weight: 2, eager_poll: 0.35, flush: false, ..d },
        "C10" => Domain { name: "C10", nclients: if small { (4, 6) } else { (11, 13) }, good: 0, close_weight: 5, steps: if small { 70 } else { 140 }, ..d },
        "C18" => Domain { name: "C18", nclients: (1, if small { 4 } else { 11 }), good: 0, kill: true, close_weight: 1, setlimit: true, ..d },
        // descriptors travel with any piece of any request; pipelining, malformed input, closes and late answers mixed in
        "C12srv" => Domain { name: "C12srv", nclients: (1, 3), good: 0, close_weight: 2, pipeline: 0.5, respond_weight: 3, fds: 0.5, ..d },
        // the race-only branches: a client closes / half-closes / sends between two sub-steps of one call
        "C09race" => Domain { name: "C09race", nclients: (2, 4), good: 1, close_weight: 2, race: true, pipeline: 0.4, respond_weight: 3, ..d },
        "C04" => Domain { name: "C04", nclients: (1, 3), good: 0, setlimit: true, close_weight: 1, ..d },
        _ => d,
    }
}

struct CState {
    connected: bool,
    closed: bool,
    wr: bool,
    rd: bool,
    outq: VecDeque<Vec<u8>>,
    nreq: usize,
    stop_reading: bool,
    nfd: usize,
}

/// One poll step; in a racing domain client actions are scheduled inside the call.
fn poll_step(rng: &mut StdRng, dom: &Domain, d: &mut Driver, cs: &mut [CState], nclients: usize, limit: usize, out: &mut dyn Write) {
    let mut ev = json!({"e": "poll"});
    if dom.race && rng.gen_bool(0.6) {
        let live: Vec<usize> = (1..=nclients).filter(|c| *c > dom.good && cs[c - 1].connected && !cs[c - 1].closed).collect();
        let mut mids = vec![];
        for _ in 0..rng.gen_range(1..=2) {
            if let Some(&c) = live.choose(rng) {
                let op = *["close", "close", "shutwr", "shutrd", "send", "send"].choose(rng).unwrap();
                let mut m = json!({"at": rng.gen_range(0..3), "op": op, "c": c});
                if op == "send" {
                    cs[c - 1].nreq += 1;
                    let k = cs[c - 1].nreq;
                    // possibly only the first piece of a request: a partial request is legal input too
                    let pieces = request_pieces(rng, c, k, false, limit);
                    m["bytes"] = obs::bytes(&pieces[0]);
                }
                mids.push(m);
            }
        }
        ev["mid"] = json!(mids);
    }
    d.step(&ev, out);
    for (op, c) in d.last_mid.drain(..) {
        if c >= 1 && c <= cs.len() {
            match op.as_str() {
                "close" => cs[c - 1].closed = true,
                "shutwr" => cs[c - 1].wr = true,
                "shutrd" => cs[c - 1].rd = true,
                _ => {}
            }
        }
    }
}

fn request_pieces(rng: &mut StdRng, c: usize, k: usize, good: bool, limit: usize) -> Vec<Vec<u8>> {
    let uri = tag_uri(c, k);
    let mut req: Vec<u8> = vec![];
    let kind = rng.gen_range(0..if good { 6 } else { 12 });
    match kind {
        0 | 1 => {
            req.extend(b"GET ");
            req.extend(&uri);
            req.extend(b" HTTP/1.1\r\n\r\n");
        }
        2 => {
            let n = rng.gen_range(1..=limit.min(20).max(1));
            req.extend(b"PUT ");
            req.extend(&uri);
            req.extend(format!(" HTTP/1.1\r\nContent-Length: {}\r\n\r\n", n).as_bytes());
            req.extend((0..n).map(|i| b'a' + (i % 26) as u8));
        }
        3 => {
            let n = rng.gen_range(1..=limit.min(20).max(1));
            req.extend(b"PATCH ");
            req.extend(&uri);
            req.extend(format!(" HTTP/1.0\r\nExpect: 100-continue\r\nContent-Length: {}\r\n\r\n", n).as_bytes());
            req.extend((0..n).map(|i| b'0' + (i % 10) as u8));
        }
        4 => {
            req.extend(b"GET ");
            req.extend(&uri);
            req.extend(b" HTTP/1.0\r\nX-A: b\r\nAccept: application/json\r\n\r\n");
        }
        5 => {
            req.extend(b"GET ");
            req.extend(&uri);
            req.extend(b" HTTP/1.1\r\nContent-Length: 0\r\n\r\n");
        }
        6 => {
            req.extend(b"POST ");
            req.extend(&uri);
            req.extend(b" HTTP/1.1\r\n\r\n");
        }
        7 => {
            req.extend(b"PUT ");
            req.extend(&uri);
            req.extend(format!(" HTTP/1.1\r\nContent-Length: {}\r\n\r\n", limit + 1 + rng.gen_range(0..3)).as_bytes());
        }
        8 => {
            req.extend(b"GET ");
            req.extend(&uri);
            req.extend(b" HTTP/1.1\r\nNoColonHere\r\n\r\n");
        }
        10 => {
            // a header line longer than the receive buffer with multi-byte characters and invalid bytes
            // where the window ends (the 400 carries the lossy rendering of the window)
            req.extend(b"GET ");
            req.extend(&uri);
            req.extend(b" HTTP/1.1\r\nX: ");
            let n = crate::BUF + rng.gen_range(0..8);
            let mut val: Vec<u8> = std::iter::repeat(b'v').take(n).collect();
            let specials: [&[u8]; 5] = [&[0xFF], &[0xC3, 0xA9], &[0xE2, 0x82, 0xAC], &[0xC3], &[0x80]];
            for _ in 0..rng.gen_range(1..4) {
                let sp = specials[rng.gen_range(0..specials.len())];
                let pos = (crate::BUF - 3).saturating_sub(rng.gen_range(0..6));
                for (k, byte) in sp.iter().enumerate() {
                    if pos + k < val.len() {
                        val[pos + k] = *byte;
                    }
                }
            }
            req.extend(val);
            req.extend(b"\r\n\r\n");
        }
        9 => {
            // asks for 100 Continue but declares more than the limit: the only answer is the 400
            req.extend(b"PUT ");
            req.extend(&uri);
            req.extend(format!(" HTTP/1.1\r\nExpect: 100-continue\r\nContent-Length: {}\r\n\r\n", limit + 1 + rng.gen_range(0..3)).as_bytes());
        }
        _ => {
            let n = rng.gen_range(1..30);
            req.extend((0..n).map(|_| rng.gen::<u8>()));
            req.extend(b"\r\n");
        }
    }
    // segmentation of the request into sends
    match rng.gen_range(0..4) {
        0 => vec![req],
        1 if req.len() > 2 => {
            let cut = rng.gen_range(1..req.len());
            vec![req[..cut].to_vec(), req[cut..].to_vec()]
        }
        2 if req.len() > 4 => {
            let mut a = rng.gen_range(1..req.len());
            let mut b = rng.gen_range(1..req.len());
            if a > b {
                std::mem::swap(&mut a, &mut b);
            }
            if a == b {
                return vec![req];
            }
            vec![req[..a].to_vec(), req[a..b].to_vec(), req[b..].to_vec()]
        }
        _ => vec![req],
    }
}

/// Runs `n` random histories of the given domain; trace events go to `out`.
pub fn run(prop: &str, seed: u64, n: usize, sock_dir: &str, out: &mut dyn Write) {
    let small = crate::BUF < 1024;
    let dom = domain(prop, small);
    let mut rng = StdRng::seed_from_u64(seed);
    for h in 0..n {
        let hseed: u64 = rng.gen();
        history(&dom, hseed, h as u64, sock_dir, out);
        out.flush().unwrap();
    }
}

pub fn history(dom: &Domain, seed: u64, hist: u64, sock_dir: &str, out: &mut dyn Write) {
    let mut rng = StdRng::seed_from_u64(seed);
    let small = crate::BUF < 1024;
    let nclients = rng.gen_range(dom.nclients.0..=dom.nclients.1);
    let limit: usize = if small { 20 } else { *[20usize, 51200].choose(&mut rng).unwrap() };
    let with_kill = dom.kill || rng.gen_bool(0.3);
    // one C18 history in six: the shutdown was requested before the kill switch was registered
    let prekill = dom.kill && hist % 6 == 5;
    let mut d = Driver::new(nclients, limit, with_kill, prekill, sock_dir, hist, out);
    let mut cs: Vec<CState> = (0..nclients)
        .map(|_| CState { connected: false, closed: false, wr: false, rd: false, outq: VecDeque::new(), nreq: 0, stop_reading: false, nfd: 0 })
        .collect();
    // one capacity history in eight is a scripted churn at the limit: the table is full, a connection with
    // a yielded request closes while one or two further clients wait in the backlog (so the listener is
    // ahead of the hang-up in the kernel's ready list), the late answer arrives, the server polls again
    if dom.name == "C10" && hist % 8 == 3 && nclients >= crate::MAX_CONN + 2 {
        let m = crate::MAX_CONN;
        for c in 1..=m {
            d.step(&json!({"e": "connect", "c": c}), out);
            if d.ready() {
                d.step(&json!({"e": "poll"}), out);
            }
        }
        let a = rng.gen_range(1..=m);
        let mut req = b"GET ".to_vec();
        req.extend(tag_uri(a, 1));
        req.extend(b" HTTP/1.1\r\n\r\n");
        d.step(&json!({"e": "send", "c": a, "bytes": obs::bytes(&req)}), out);
        if d.ready() {
            d.step(&json!({"e": "poll"}), out);
        }
        let waiting = rng.gen_range(2..=(nclients - m).min(3));
        for c in (m + 1)..=(m + waiting) {
            d.step(&json!({"e": "connect", "c": c}), out);
        }
        d.step(&json!({"e": if rng.gen_bool(0.7) { "close" } else { "shutwr" }, "c": a}), out);
        let respond_first = rng.gen_bool(0.3);
        if respond_first {
            d.step(&json!({"e": "respond", "c": a, "k": 0, "pad": 0, "code": 200}), out);
        }
        if d.ready() {
            d.step(&json!({"e": "poll"}), out);
        }
        if !respond_first {
            d.step(&json!({"e": "respond", "c": a, "k": 0, "pad": 0, "code": 200}), out);
        }
        for _ in 0..3 {
            if d.ready() {
                d.step(&json!({"e": "poll"}), out);
            }
        }
        for c in 1..=(m + waiting) {
            if c != a {
                d.step(&json!({"e": "recv", "c": c}), out);
            }
        }
        d.step(&json!({"e": "fdcount"}), out);
        writeln!(out, "{}", json!({"e": "endhist", "hist": hist})).unwrap();
        return;
    }
    let mut cur_limit = limit;
    let kill_at = if prekill { rng.gen_range(0..6) } else if dom.kill { rng.gen_range(0..dom.steps) } else { usize::MAX };
    let mut killed = false;
    let mut polls_after_kill = 0;
    let mut i = 0;
    while i < dom.steps + 40 {
        i += 1;
        let settling = i > dom.steps;
        if i == kill_at + 1 && !killed {
            if rng.gen_bool(0.6) {
                // burst: everybody becomes readable at once, one more client waits, then the signal
                for c in 1..=nclients {
                    if !cs[c - 1].connected && !cs[c - 1].closed {
                        d.step(&json!({"e": "connect", "c": c}), out);
                        cs[c - 1].connected = true;
                        if d.ready() && c < nclients {
                            d.step(&json!({"e": "poll"}), out);
                        }
                    }
                }
                for c in 1..=nclients {
                    if cs[c - 1].connected && !cs[c - 1].closed && !cs[c - 1].wr {
                        cs[c - 1].nreq += 1;
                        let k = cs[c - 1].nreq;
                        let pieces = request_pieces(&mut rng, c, k, true, limit);
                        d.step(&json!({"e": "send", "c": c, "bytes": obs::bytes(&pieces[0])}), out);
                    }
                }
            }
            // the client waiting in the backlog may have gone when the server gets to it (at capacity: the
            // refusal message cannot be delivered -- that must not hide the signal)
            if rng.gen_bool(0.4) {
                if let Some(c) = (1..=nclients).rev().find(|c| cs[c - 1].connected && !cs[c - 1].closed) {
                    d.step(&json!({"e": "close", "c": c}), out);
                    cs[c - 1].closed = true;
                }
            }
            d.step(&json!({"e": "kill"}), out);
            killed = true;
            continue;
        }
        if killed {
            // after the signal: poll a few times (each gated by readiness), then stop
            d.step(&json!({"e": "poll"}), out);
            polls_after_kill += 1;
            if polls_after_kill >= 3 {
                break;
            }
            continue;
        }
        // the canonical caller polls when the descriptor is ready
        if d.ready() && (settling || rng.gen_bool(dom.eager_poll)) {
            poll_step(&mut rng, dom, &mut d, &mut cs, nclients, limit, out);
            continue;
        }
        // candidate steps with weights
        let mut cands: Vec<(u32, Value)> = vec![];
        for c in 1..=nclients {
            let good = c <= dom.good;
            let st = &cs[c - 1];
            if !st.connected && !st.closed {
                if !settling {
                    cands.push((4, json!({"e": "connect", "c": c})));
                }
                continue;
            }
            if st.closed {
                continue;
            }
            if !st.wr && !settling {
                cands.push((6, json!({"e": "sendnext", "c": c})));
            }
            if !st.wr && settling && !st.outq.is_empty() {
                cands.push((6, json!({"e": "sendnext", "c": c})));
            }
            if !st.stop_reading || good {
                cands.push((if settling { 6 } else { 3 }, json!({"e": "recv", "c": c})));
            }
            if !good && !settling && dom.close_weight > 0 {
                cands.push((dom.close_weight, json!({"e": "close", "c": c})));
                if !st.wr {
                    cands.push((dom.close_weight / 2 + 1, json!({"e": "shutwr", "c": c})));
                }
                if !st.rd {
                    cands.push((dom.close_weight / 2 + 1, json!({"e": "shutrd", "c": c})));
                }
            }
        }
        let held_clients: Vec<usize> = d.held.iter().map(|h| h.0).collect();
        if !held_clients.is_empty() {
            let c = *held_clients.choose(&mut rng).unwrap();
            let nonreader = c >= 1 && c <= nclients && cs[c - 1].stop_reading;
            let pad = if (dom.big_pad && rng.gen_bool(0.5)) || (dom.big_to_nonreaders && nonreader) { rng.gen_range(250_000..600_000) }
                      else if rng.gen_bool(0.2) { rng.gen_range(0..3000) } else { 0 };
            cands.push((if settling { 10 } else { dom.respond_weight }, json!({"e": "respond", "c": c, "k": rng.gen_range(0..8), "pad": pad, "code": if rng.gen_bool(0.1) { 204 } else { 200 }})));
        }
        // answers supplied around a write: two answers, one poll (one write), a third answer
        if dom.pipeline > 0.4 {
            if let Some(c) = (1..=nclients).find(|c| held_clients.iter().filter(|h| *h == c).count() >= 3) {
                cands.push((3, json!({"e": "burst_respond", "c": c})));
            }
        }
        if dom.flush && !settling {
            cands.push((1, json!({"e": "flush"})));
        }
        if d.held.len() >= 2 {
            cands.push((2, json!({"e": "respond_many", "n": rng.gen_range(2..5)})));
        }
        if dom.setlimit && !settling {
            cands.push((3, json!({"e": "setlimit", "limit": obs::digits(*[0u128, 3, 20, 51200].choose(&mut rng).unwrap())})));
        }
        if d.ready() {
            cands.push((4, json!({"e": "poll"})));
        } else if rng.gen_bool(0.05) {
            cands.push((1, json!({"e": "poll"}))); // logged as not called: readiness flag only
        } else if dom.eintr && !dom.kill && rng.gen_bool(0.15) {
            cands.push((2, json!({"e": "poll_eintr"}))); // a blocking requests() interrupted by a signal
        }
        if rng.gen_bool(if dom.fds > 0.0 { 0.3 } else { 0.03 }) {
            cands.push((1, json!({"e": "fdcount"})));
        }
        if cands.is_empty() {
            if settling {
                break;
            }
            continue;
        }
        let total: u32 = cands.iter().map(|c| c.0).sum();
        let mut pick = rng.gen_range(0..total);
        let mut chosen = cands[0].1.clone();
        for (w, v) in &cands {
            if pick < *w {
                chosen = v.clone();
                break;
            }
            pick -= *w;
        }
        let c = chosen["c"].as_u64().unwrap_or(0) as usize;
        match chosen["e"].as_str().unwrap() {
            "sendnext" => {
                let good = c <= dom.good;
                if cs[c - 1].outq.is_empty() {
                    if settling {
                        continue;
                    }
                    cs[c - 1].nreq += 1;
                    let k = cs[c - 1].nreq;
                    let lim = if dom.setlimit && rng.gen_bool(0.5) { cur_limit.max(limit).min(40) } else { cur_limit.min(limit) };
                    let mut pieces = request_pieces(&mut rng, c, k, good, lim);
                    // sometimes pipeline a second request into the same send
                    while rng.gen_bool(dom.pipeline) && pieces.len() < 6 {
                        cs[c - 1].nreq += 1;
                        let kk = cs[c - 1].nreq;
                        let more = request_pieces(&mut rng, c, kk, good, cur_limit.min(limit));
                        let mut joined: Vec<u8> = pieces.pop().unwrap();
                        joined.extend(&more[0]);
                        pieces.push(joined);
                        pieces.extend(more.into_iter().skip(1));
                    }
                    cs[c - 1].outq.extend(pieces);
                }
                let bytes = cs[c - 1].outq.pop_front().unwrap();
                let mut fds: Vec<i64> = vec![];
                if dom.fds > 0.0 && rng.gen_bool(dom.fds) {
                    let n = *[1usize, 1, 2, 3].choose(&mut rng).unwrap();
                    for _ in 0..n {
                        if cs[c - 1].nfd < 99 {
                            cs[c - 1].nfd += 1;
                            fds.push((100 * c + cs[c - 1].nfd) as i64);
                        }
                    }
                }
                d.step(&json!({"e": "send", "c": c, "bytes": obs::bytes(&bytes), "fds": fds}), out);
            }
            "burst_respond" => {
                let r = json!({"e": "respond", "c": c, "k": 0, "pad": 0, "code": 200});
                d.step(&r, out);
                d.step(&r, out);
                if d.ready() {
                    d.step(&json!({"e": "poll"}), out);
                }
                d.step(&r, out);
                // let the answers reach the client: what it receives is what C07 judges
                for _ in 0..3 {
                    if d.ready() {
                        d.step(&json!({"e": "poll"}), out);
                    }
                }
                if !cs[c - 1].closed {
                    d.step(&json!({"e": "recv", "c": c}), out);
                }
            }
            "connect" => {
                d.step(&chosen, out);
                cs[c - 1].connected = true;
                if c > dom.good && rng.gen_bool(if dom.big_to_nonreaders { 0.7 } else { 0.15 }) {
                    cs[c - 1].stop_reading = true;
                }
            }
            "close" => {
                d.step(&chosen, out);
                cs[c - 1].closed = true;
            }
            "shutwr" => {
                d.step(&chosen, out);
                cs[c - 1].wr = true;
            }
            "shutrd" => {
                d.step(&chosen, out);
                cs[c - 1].rd = true;
            }
            "setlimit" => {
                cur_limit = obs::from_digits(&chosen["limit"]) as usize;
                d.step(&chosen, out);
            }
            "poll" if dom.race => {
                poll_step(&mut rng, dom, &mut d, &mut cs, nclients, limit, out);
            }
            _ => {
                d.step(&chosen, out);
            }
        }
    }
    d.step(&json!({"e": "fdcount"}), out);
    writeln!(out, "{}", json!({"e": "endhist", "hist": hist})).unwrap();
}

/// Replays every history of an NDJSON file (one JSON array of steps per line).
pub fn replay_many(path: &str, sock_dir: &str, out: &mut dyn Write) {
    for line in std::fs::read_to_string(path).unwrap_or_default().lines() {
        if line.trim().is_empty() {
            continue;
        }
        if let Ok(v) = serde_json::from_str::<Value>(line) {
            replay(&v, sock_dir, out);
            out.flush().unwrap();
        }
    }
}

/// Replays a list of concrete steps (a violation replay file).
pub fn replay(steps: &Value, sock_dir: &str, out: &mut dyn Write) {
    let empty = vec![];
    let steps = steps.as_array().unwrap_or(&empty);
    let Some(first) = steps.first() else { return };
    let nclients = first["nclients"].as_u64().unwrap_or(4) as usize;
    let limit = obs::from_digits(&first["limit"]) as usize;
    let mut d = Driver::new(nclients, limit, first["kill"].as_bool().unwrap_or(false), first["prekill"].as_bool().unwrap_or(false), sock_dir, first["hist"].as_u64().unwrap_or(0), out);
    for st in steps.iter().skip(1) {
        if st["e"] == "endhist" {
            break;
        }
        let mut s = st.clone();
        if s["e"] == "poll" && s.get("mid").is_none() {
            // a recorded step (violation replay): the client actions performed inside the call are in its hook list
            let mids: Vec<Value> = s["hooks"].as_array().map(|a| a.iter().filter(|h| h["h"] == "mid").cloned().collect()).unwrap_or_default();
            if !mids.is_empty() {
                s["mid"] = json!(mids);
            }
        }
        if s["e"] == "respond" {
            // the recorded step names the request by tag; find its index among held ones
            let tag = obs::from_bytes(&s["tag"]);
            let c = s["c"].as_u64().unwrap_or(0) as usize;
            let idxs: Vec<usize> = d.held.iter().enumerate().filter(|(_, h)| h.0 == c).map(|(i, _)| i).collect();
            if let Some(k) = idxs.iter().position(|i| d.held[*i].1 == tag) {
                s["k"] = json!(k);
            }
            let ser = obs::from_bytes(&s["ser"]);
            // recover the padding from the logged serialization (body = tag + pad dots)
            let pad = ser.iter().rev().take_while(|b| **b == b'.').count();
            s["pad"] = json!(pad);
            s["code"] = json!(if ser.starts_with(b"HTTP/1.1 204") { 204 } else { 200 });
        }
        d.step(&s, out);
    }
    writeln!(out, "{}", json!({"e": "endhist", "hist": first["hist"]})).unwrap();
}
