//! Script generators for the connection-level checks (one per property domain).
use crate::gram::{self, Opts, Req};
use crate::obs;
use rand::rngs::StdRng;
use rand::seq::SliceRandom;
use rand::{Rng, SeedableRng};
use serde_json::{json, Value};

pub struct Ctx {
    pub rng: StdRng,
    pub next_run: u64,
    pub next_fam: u64,
    pub next_tag: i64,
    pub out: Vec<Value>,
    pub buf: usize,
    pub thorough: bool,
}

impl Ctx {
    pub fn new(seed: u64, thorough: bool) -> Self {
        Ctx { rng: StdRng::seed_from_u64(seed), next_run: 0, next_fam: 1, next_tag: 1, out: vec![], buf: crate::BUF, thorough }
    }
    pub fn small(&self) -> bool {
        self.buf < 1024
    }
    pub fn opts(&self) -> Opts {
        if self.small() {
            Opts { max_body: 12, max_uri: 6, fancy: false, max_extra_headers: 2, expect_prob: 0.3 }
        } else {
            Opts::default()
        }
    }
    pub fn push(&mut self, mut script: Value) {
        script["run"] = json!(self.next_run);
        self.next_run += 1;
        self.out.push(script);
    }
    pub fn fam(&mut self) -> u64 {
        self.next_fam += 1;
        self.next_fam - 1
    }
}

pub fn rd(c: &[u8]) -> Value {
    json!({"e": "read", "kind": "data", "bytes": obs::bytes(c), "fds": []})
}
pub fn rd_fds(c: &[u8], fds: &[i64]) -> Value {
    json!({"e": "read", "kind": "data", "bytes": obs::bytes(c), "fds": fds})
}
pub fn rd_err(errno: i32) -> Value {
    json!({"e": "read", "kind": "err", "errno": errno})
}
pub fn reads(chunks: &[Vec<u8>]) -> Vec<Value> {
    chunks.iter().map(|c| rd(c)).collect()
}
pub fn with_empty_reads(rng: &mut StdRng, evs: Vec<Value>) -> Vec<Value> {
    let mut out = vec![];
    for e in evs {
        if rng.gen_bool(0.5) {
            out.push(rd_err(if rng.gen_bool(0.5) { libc::EAGAIN } else { libc::EINTR }));
        }
        out.push(e);
    }
    out.push(rd_err(libc::EAGAIN));
    out
}

pub fn script(limit: u128, cmp: &[&str], fam: u64, ev: Vec<Value>, note: &str) -> Value {
    json!({"fam": fam, "cmp": cmp, "limit": obs::digits(limit), "ev": ev, "note": note})
}

pub const ORACLE: [&str; 3] = ["res", "popped", "whole"];
/// the same plus the pending-output flag (C04: a refusal for size queues nothing)
pub const ORACLE_P: [&str; 4] = ["res", "popped", "whole", "pending"];

// ---------------------------------------------------------------------------------------
// C02: grammar + every single-point corruption; maximal reads and byte-at-a-time.
// The property speaks about everything up to the first error: runs stop there.
// ---------------------------------------------------------------------------------------
pub fn c02(cx: &mut Ctx) {
    edge_tails(cx, &ORACLE, "edge_tail", true);
    let n = if cx.thorough { 1500 } else { 150 };
    let o = cx.opts();
    for i in 0..n {
        let r = gram::valid(&mut cx.rng, &o);
        let mut cases: Vec<(String, Vec<u8>)> = vec![("valid".to_string(), r.bytes())];
        let cs = gram::corruptions(&r);
        if i % 4 == 0 {
            for (name, b) in cs {
                cases.push((name.to_string(), b));
            }
        } else {
            for _ in 0..4 {
                let (name, b) = &cs[cx.rng.gen_range(0..cs.len())];
                cases.push((name.to_string(), b.clone()));
            }
        }
        for (name, b) in cases {
            let mut stream = vec![];
            // optionally pipeline valid requests before and behind it
            if cx.rng.gen_bool(0.3) {
                stream.extend(gram::valid(&mut cx.rng, &o).bytes());
            }
            stream.extend(&b);
            if cx.rng.gen_bool(0.3) {
                stream.extend(gram::valid(&mut cx.rng, &o).bytes());
            }
            let limit = if cx.rng.gen_bool(0.2) { cx.rng.gen_range(0..20) } else { 51200 };
            let mut s = script(limit, &ORACLE, 0, reads(&[stream.clone()]), &name);
            s["stop_on_error"] = json!(true);
            cx.push(s);
            if cx.rng.gen_bool(0.12) {
                let bytewise: Vec<Vec<u8>> = stream.iter().map(|b| vec![*b]).collect();
                let mut s = script(limit, &ORACLE, 0, reads(&bytewise), &name);
                s["stop_on_error"] = json!(true);
                cx.push(s);
            }
        }
    }
}

// ---------------------------------------------------------------------------------------
// C01: families of segmentations of one stream.
// ---------------------------------------------------------------------------------------
const PIECES: [(&str, &[u8]); 15] = [
    ("RL", b"GET / HTTP/1.1\r\n"),
    ("RL", b"PUT /a HTTP/1.0\r\n"),
    ("RL", b"POST / HTTP/1.1\r\n"),
    ("HD", b"Content-Length: 3\r\n"),
    ("HD", b"Content-Length: 9\r\n"),
    ("HD", b"Expect: 100-continue\r\n"),
    ("HD", b"X-A: b\r\n"),
    ("HD", b"NoColon\r\n"),
    ("HD", b"Y:yyyyyyyyyyyyyyyyyyyyyyyyyyyyy\r\n"),
    ("HD", b"Z:zzzzzzzzzzzzzzzzzzzzzzzzzzzz\r\n"),
    ("HD", b"W: a\rb\r\n"),
    ("BL", b"\r\n"),
    ("BD", b"abc"),
    ("BD", b"\r\n\r"),
    ("JK", b"\n"),
];

fn succ_ok(prev: &str, next: &str) -> bool {
    match prev {
        "" => true,
        "RL" | "HD" => next == "HD" || next == "BL",
        "BL" => next == "RL" || next == "BD" || next == "JK",
        "BD" => next == "RL" || next == "BD",
        _ => true,
    }
}

fn piece_streams(maxlen: usize) -> Vec<Vec<u8>> {
    let mut out = vec![];
    fn rec(cur: &mut Vec<usize>, maxlen: usize, out: &mut Vec<Vec<u8>>) {
        if !cur.is_empty() {
            let mut s = vec![];
            for &i in cur.iter() {
                s.extend(PIECES[i].1);
            }
            out.push(s);
        }
        if cur.len() == maxlen {
            return;
        }
        let prev = cur.last().map(|&i| PIECES[i].0).unwrap_or("");
        for j in 0..PIECES.len() {
            if succ_ok(prev, PIECES[j].0) {
                cur.push(j);
                rec(cur, maxlen, out);
                cur.pop();
            }
        }
    }
    rec(&mut vec![], maxlen, &mut out);
    out
}

fn family(cx: &mut Ctx, stream: &[u8], limit: u128, oracle: bool, note: &str, all_one_cuts: bool, n_two_cuts: usize) {
    let fam = cx.fam();
    let cmp: Vec<&str> = if oracle { ORACLE.to_vec() } else { vec![] };
    let mut emit = |cx: &mut Ctx, chunks: Vec<Vec<u8>>, empties: bool| {
        let evs = reads(&chunks);
        let evs = if empties { with_empty_reads(&mut cx.rng, evs) } else { evs };
        let mut s = script(limit, &cmp, fam, evs, note);
        s["stop_on_error"] = json!(true);
        cx.push(s);
    };
    // reference member: maximal reads
    emit(cx, vec![stream.to_vec()], false);
    if stream.len() < 2 {
        return;
    }
    if stream.len() <= 600 || cx.rng.gen_bool(0.1) {
        emit(cx, stream.iter().map(|b| vec![*b]).collect(), false);
    }
    let interesting = gram::interesting_cuts(stream, cx.buf);
    let one_cuts: Vec<usize> = if all_one_cuts {
        (1..stream.len()).collect()
    } else {
        // every cut next to a window edge, and a sample of the cuts next to a CR / LF
        let b = cx.buf;
        let mut v: Vec<usize> = interesting.iter().cloned().filter(|c| (c + 1) % b <= 2).collect();
        let mut rest: Vec<usize> = interesting.iter().cloned().filter(|c| (c + 1) % b > 2).collect();
        rest.shuffle(&mut cx.rng);
        v.extend(rest.into_iter().take(if cx.thorough { 40 } else { 12 }));
        v.sort();
        v
    };
    for c in one_cuts {
        let e = cx.rng.gen_bool(0.25);
        emit(cx, gram::cut(stream, &[c]), e);
    }
    for _ in 0..n_two_cuts {
        let mut cs: Vec<usize> = match (interesting.is_empty(), cx.rng.gen_range(0..10)) {
            (false, 0..=3) => (0..2).map(|_| *interesting.choose(&mut cx.rng).unwrap()).collect(),
            // one cut anywhere (typically inside a line), one next to a line end / request boundary
            (false, 4..=7) => vec![cx.rng.gen_range(1..stream.len()), *interesting.choose(&mut cx.rng).unwrap()],
            _ => gram::random_cuts(&mut cx.rng, stream.len(), 2),
        };
        if cx.rng.gen_bool(0.3) {
            cs.extend(gram::random_cuts(&mut cx.rng, stream.len(), 3));
        }
        cs.sort();
        cs.dedup();
        let e = cx.rng.gen_bool(0.25);
        emit(cx, gram::cut(stream, &cs), e);
    }
}

pub fn c01(cx: &mut Ctx) {
    let o = cx.opts();
    if cx.small() {
        // enumerated piece streams (BUF = 32): every 1-cut, sampled 2-cuts
        let maxlen = if cx.thorough { 4 } else { 3 };
        let streams = piece_streams(maxlen);
        let stride = if cx.thorough { 1 } else { 2 };
        let off = (cx.rng.gen::<usize>()) % stride;
        for (i, s) in streams.iter().enumerate() {
            if i % stride != off {
                continue;
            }
            let two = if cx.thorough { 16 } else { 6 };
            family(cx, s, 5, false, "pieces", true, two);
        }
        // well-formed pipelines from the grammar (oracle on as well)
        for _ in 0..(if cx.thorough { 300 } else { 40 }) {
            let k = cx.rng.gen_range(1..=3);
            let mut s = vec![];
            for _ in 0..k {
                s.extend(gram::valid(&mut cx.rng, &o).bytes());
            }
            family(cx, &s, 51200, true, "pipeline", true, if cx.thorough { 60 } else { 16 });
        }
    } else {
        // full window: critical tokens straddling the window edge; long bodies and lines
        let n = if cx.thorough { 600 } else { 60 };
        for i in 0..n {
            let stream = edge_stream(cx, i);
            let oracle = true;
            family(cx, &stream.0, stream.1, oracle, &stream.2, false, if cx.thorough { 10 } else { 5 });
        }
    }
}

/// Streams whose line ends / header terminators / body ends land around offset 1024 (or 2048).
fn edge_stream(cx: &mut Ctx, i: usize) -> (Vec<u8>, u128, String) {
    let o = Opts { max_body: 60, ..Opts::default() };
    let target = cx.buf * cx.rng.gen_range(1..=2) + cx.rng.gen_range(0..9) - 4; // 1020..1028
    let mut s = vec![];
    match i % 6 {
        0 => {
            // request line ending at the edge
            let base = b"GET / HTTP/1.1".len();
            let want = target.saturating_sub(base + 2).min(cx.buf + 40);
            let uri: Vec<u8> = std::iter::once(b'/').chain((0..want).map(|k| b'a' + (k % 26) as u8)).collect();
            let r = Req { method: b"GET".to_vec(), uri, version: b"HTTP/1.1".to_vec(), headers: vec![], body: vec![] };
            s.extend(r.bytes());
            s.extend(gram::valid(&mut cx.rng, &o).bytes());
            (s, 51200, "edge_reqline".into())
        }
        1 => {
            // header line ending at the edge, after a preceding request that shifts the offset
            let pre = gram::valid(&mut cx.rng, &o).bytes();
            let off = cx.rng.gen_range(0..pre.len().min(40) + 1);
            s.extend(&pre);
            let mut r = gram::valid(&mut cx.rng, &o);
            let hl = target.saturating_sub(off % 50).max(8);
            let mut h = b"X-Long: ".to_vec();
            h.extend((0..hl).map(|k| b'a' + (k % 26) as u8));
            r.headers.insert(0, h);
            s.extend(r.bytes());
            s.extend(gram::valid(&mut cx.rng, &o).bytes());
            (s, 51200, "edge_header".into())
        }
        2 => {
            // body ending at the edge, followed by another request
            let blen = target;
            let body = gram::rand_body(&mut cx.rng, blen);
            let r = Req { method: b"PUT".to_vec(), uri: b"/b".to_vec(), version: b"HTTP/1.1".to_vec(),
                          headers: vec![format!("Content-Length: {}", blen).into_bytes()], body };
            s.extend(r.bytes());
            s.extend(gram::valid(&mut cx.rng, &o).bytes());
            (s, 51200, "edge_body".into())
        }
        3 => {
            // many short headers so that the header terminator falls near the edge
            let mut r = gram::valid(&mut cx.rng, &o);
            r.headers.clear();
            let mut len = r.request_line().len() + 2;
            let mut k = 0;
            while len + 90 < target {
                let h = format!("X-{}: {}", k, "v".repeat(cx.rng.gen_range(30..80))).into_bytes();
                len += h.len() + 2;
                r.headers.push(h);
                k += 1;
            }
            // pad the last header so that the blank line lands on the target offset
            let fill = target.saturating_sub(len + 8);
            r.headers.push(format!("X-F: {}", "f".repeat(fill)).into_bytes());
            r.headers.retain(|h| !h.to_ascii_lowercase().starts_with(b"content-length") && !h.to_ascii_lowercase().starts_with(b"expect"));
            r.body.clear();
            s.extend(r.bytes());
            s.extend(gram::valid(&mut cx.rng, &o).bytes());
            (s, 51200, "edge_headers_end".into())
        }
        4 => {
            // large body (several windows), Expect, pipelined follow-up
            let blen = cx.rng.gen_range(1..4) * cx.buf + cx.rng.gen_range(0..9);
            let body = gram::rand_body(&mut cx.rng, blen);
            let r = Req { method: b"PATCH".to_vec(), uri: b"/big".to_vec(), version: b"HTTP/1.0".to_vec(),
                          headers: vec![b"Expect: 100-continue".to_vec(), format!("Content-Length: {}", blen).into_bytes()], body };
            s.extend(r.bytes());
            s.extend(gram::valid(&mut cx.rng, &o).bytes());
            (s, 51200, "big_body".into())
        }
        _ => {
            // random pipeline with a corruption somewhere
            let k = cx.rng.gen_range(1..=3);
            for _ in 0..k {
                s.extend(gram::valid(&mut cx.rng, &o).bytes());
            }
            let r = gram::valid(&mut cx.rng, &o);
            let cs = gram::corruptions(&r);
            s.extend(&cs[cx.rng.gen_range(0..cs.len())].1);
            (s, 51200, "pipeline_corrupt".into())
        }
    }
}

// ---------------------------------------------------------------------------------------
// C04: payload limits x declared lengths; line lengths x offsets.
// ---------------------------------------------------------------------------------------
/// set_payload_max_size on a live connection: the limit in force when a header block is COMPLETED decides,
/// wherever in the stream the call is made (before the request, after its request line, inside its header
/// block, while its body streams in, between two requests).
pub fn limit_changes(cx: &mut Ctx) {
    for &(n, l1, l2) in &[(3u128, 2u128, 8u128), (3, 8, 2), (10, 9, 10), (10, 10, 9), (3, 0, 3), (40, 100, 39), (40, 39, 100)] {
        let mut s: Vec<u8> = vec![];
        let mut marks: Vec<usize> = vec![0];
        s.extend(b"PUT /a HTTP/1.1\r\n");
        marks.push(s.len());
        s.extend(b"X-A: b\r\n");
        marks.push(s.len() - 4);
        s.extend(format!("Content-Length: {}\r\n", n).as_bytes());
        marks.push(s.len());
        s.extend(b"\r\n");
        marks.push(s.len());
        s.extend((0..n).map(|i| b'a' + (i % 26) as u8));
        marks.push(s.len() - 1);
        marks.push(s.len());
        s.extend(b"GET /b HTTP/1.1\r\n\r\n");
        marks.push(s.len());
        s.extend(format!("PUT /c HTTP/1.0\r\nContent-Length: {}\r\n", n).as_bytes());
        marks.push(s.len());
        s.extend(b"\r\n");
        s.extend((0..n).map(|i| b'0' + (i % 10) as u8));
        marks.dedup();
        for (k, &at) in marks.iter().enumerate() {
            // reads cut at every mark; the limit changes right before the read that starts at `at`
            let mut evs = vec![];
            let mut last = 0;
            for &m in marks.iter().skip(1).chain(std::iter::once(&s.len())) {
                if last == at {
                    evs.push(json!({"e": "setlimit", "limit": obs::digits(l2)}));
                }
                if m > last {
                    evs.push(rd(&s[last..m]));
                }
                last = m;
            }
            let _ = k;
            let mut sc = script(l1, &["res", "popped", "pending"], 0, evs, "limit_change");
            sc["stop_on_error"] = json!(true);
            cx.push(sc);
        }
    }
}

pub fn c04(cx: &mut Ctx) {
    limit_changes(cx);
    huge_lengths(cx, &ORACLE_P, "huge_length");
    let limits: Vec<u128> = vec![0, 1, 2, 3, 4, 5, 6, 7, 8, 1023, 1024, 1025, 51199, 51200, 51201, 4294967295];
    for &l in &limits {
        let mut ns: Vec<u128> = vec![l, l + 1];
        if l > 0 {
            ns.push(l - 1);
        }
        if l > 1 {
            ns.push(1);
        }
        for n in ns {
            for variant in 0..4 {
                let m: &[u8] = if variant % 2 == 0 { b"PUT" } else { b"GET" };
                let mut head = vec![];
                head.extend(m);
                head.extend(b" /l HTTP/1.1\r\n");
                if variant >= 2 {
                    head.extend(b"Expect: 100-continue\r\n");
                }
                head.extend(format!("Content-Length: {}\r\n\r\n", n).as_bytes());
                // (a) header block alone: the verdict must be there before any body byte
                let mut s = script(l, &ORACLE_P, 0, reads(&[head.clone()]), "limit_head_only");
                s["stop_on_error"] = json!(true);
                cx.push(s);
                // (b) header block and body (when it can be supplied) in one stream
                if n <= 60000 {
                    let mut full = head.clone();
                    full.extend(gram::rand_body(&mut cx.rng, n as usize));
                    full.extend(b"GET /next HTTP/1.1\r\n\r\n");
                    let mut s = script(l, &ORACLE_P, 0, reads(&[full.clone()]), "limit_with_body");
                    s["stop_on_error"] = json!(true);
                    cx.push(s);
                    if n < 3000 {
                        let cuts = gram::random_cuts(&mut cx.rng, full.len(), 3);
                        let mut s = script(l, &ORACLE_P, 0, reads(&gram::cut(&full, &cuts)), "limit_with_body_split");
                        s["stop_on_error"] = json!(true);
                        cx.push(s);
                    }
                }
            }
        }
    }
    // 2^32 is not a u32: fatal at header level whatever the limit
    for l in [0u128, 51200, 4294967295] {
        let head = b"PUT /l HTTP/1.1\r\nContent-Length: 4294967296\r\n\r\n".to_vec();
        cx.push(script(l, &ORACLE, 0, reads(&[head]), "cl_2pow32"));
    }
    // line lengths around the window, at every offset class
    let b = cx.buf;
    let (lo, hi) = if cx.small() { (b - 4, b + 4) } else { (1000, 1100) };
    let step_len = if cx.small() || cx.thorough { 1 } else { 3 };
    let mut len = lo;
    while len <= hi {
        // len counts the line including its CRLF
        let offsets: Vec<usize> = if cx.small() { (0..b).collect() } else {
            let mut v: Vec<usize> = vec![0, 1, 2, 16, 23, 24, 25, 100, 511, 1000, 1022, 1023];
            for _ in 0..(if cx.thorough { 12 } else { 3 }) {
                v.push(cx.rng.gen_range(0..b));
            }
            v
        };
        for off in offsets {
            for which in 0..3 {
                // a preceding complete request of exactly `off` bytes when possible
                let mut s = vec![];
                if off >= 18 {
                    let pad = off - 18;
                    s.extend(b"GET /");
                    s.extend(std::iter::repeat(b'p').take(pad.min(b.saturating_sub(22))));
                    s.extend(b" HTTP/1.1\r\n\r\n");
                }
                if which == 0 {
                    // request line of the given length
                    let fixed = b"GET / HTTP/1.1\r\n".len();
                    if len < fixed + 1 {
                        continue;
                    }
                    s.extend(b"GET /");
                    s.extend(std::iter::repeat(b'u').take(len - fixed));
                    s.extend(b" HTTP/1.1\r\n\r\n");
                } else {
                    s.extend(b"GET / HTTP/1.1\r\n");
                    let fixed = b"X: \r\n".len();
                    s.extend(b"X: ");
                    let mut val: Vec<u8> = std::iter::repeat(b'v').take(len - fixed).collect();
                    if which == 2 {
                        // multi-byte characters and invalid bytes, mostly where the window ends: the text of
                        // the "line too long" error is the LOSSY rendering of the window
                        if val.len() < 8 || !cx.rng.gen_bool(if cx.small() { 0.3 } else { 1.0 }) {
                            continue;
                        }
                        let specials: [&[u8]; 6] = [&[0xFF], &[0xC3, 0xA9], &[0xE2, 0x82, 0xAC], &[0xC3], &[0x80], &[0xF0, 0x9F, 0x98]];
                        for _ in 0..cx.rng.gen_range(1..4) {
                            let sp = specials[cx.rng.gen_range(0..specials.len())];
                            // position relative to the end of the window (the line starts at buffer offset 0
                            // after the request line has been consumed: the window ends b - 3 bytes into val)
                            let edge = (b - 3).min(val.len() - 1);
                            let pos = if cx.rng.gen_bool(0.7) { edge.saturating_sub(cx.rng.gen_range(0..6)) } else { cx.rng.gen_range(0..val.len()) };
                            for (k, byte) in sp.iter().enumerate() {
                                if pos + k < val.len() {
                                    val[pos + k] = *byte;
                                }
                            }
                        }
                    }
                    s.extend(val);
                    s.extend(b"\r\n\r\n");
                }
                s.extend(b"GET /after HTTP/1.1\r\n\r\n");
                let cuts = if cx.rng.gen_bool(0.3) { vec![] } else { gram::random_cuts(&mut cx.rng, s.len(), 2) };
                let mut sc = script(51200, &ORACLE, 0, reads(&gram::cut(&s, &cuts)), if which == 0 { "line_len_reqline" } else if which == 1 { "line_len_header" } else { "line_len_header_lossy" });
                sc["stop_on_error"] = json!(true);
                cx.push(sc);
            }
        }
        len += step_len;
    }
}

// ---------------------------------------------------------------------------------------
// C06: enqueue / write interleavings with every kind of stream outcome.
// ---------------------------------------------------------------------------------------
fn rand_resp(rng: &mut StdRng, max_body: usize) -> Value {
    let code = *crate::respbuild::CODES.choose(rng).unwrap();
    let mut ops = vec![];
    if rng.gen_bool(0.7) {
        let n = if rng.gen_bool(0.2) { rng.gen_range(0..=max_body) } else { rng.gen_range(0..40) };
        ops.push(json!({"op": "body", "bytes": obs::bytes(&gram::rand_body(rng, n))}));
    }
    if rng.gen_bool(0.3) {
        ops.push(json!({"op": "depr"}));
    }
    json!({"v": if rng.gen_bool(0.5) { "1.0" } else { "1.1" }, "code": code, "ops": ops})
}

pub const WRITE_CMP: [&str; 5] = ["wres", "calls", "sent", "pending", "offered"];

pub fn c06(cx: &mut Ctx) {
    let n = if cx.thorough { 6000 } else { 600 };
    for _ in 0..n {
        let nresp = cx.rng.gen_range(0..=6);
        let mut evs = vec![];
        let mut left = nresp;
        let steps = cx.rng.gen_range(1..30);
        for _ in 0..steps {
            if left > 0 && cx.rng.gen_bool(0.35) {
                evs.push(json!({"e": "enq", "resp": rand_resp(&mut cx.rng, 8192)}));
                left -= 1;
            } else if cx.rng.gen_bool(0.04) {
                // clear_write_buffer between two calls (what the server does on a hang-up)
                evs.push(json!({"e": "clear"}));
            } else if cx.rng.gen_bool(0.12) {
                // input arrives while output is pending: valid, malformed, partial, would-block
                let bytes: Vec<u8> = match cx.rng.gen_range(0..5) {
                    0 => b"this-is-not-http\r\n\r\n".to_vec(),
                    1 => b"GET /in HTTP/1.1\r\n\r\n".to_vec(),
                    2 => b"PUT /e HTTP/1.1\r\nExpect: 100-continue\r\nContent-Length: 3\r\n\r\n".to_vec(),
                    3 => b"GET /part".to_vec(),
                    _ => b"PUT /big HTTP/1.1\r\nContent-Length: 99999999\r\n\r\n".to_vec(),
                };
                evs.push(rd(&bytes));
                if cx.rng.gen_bool(0.3) {
                    evs.push(rd_err(libc::EAGAIN));
                }
            } else {
                let o = match cx.rng.gen_range(0..12) {
                    0 => json!({"k": "eintr"}),
                    1 => json!({"k": "eagain"}),
                    2 => json!({"k": "epipe"}),
                    3 => json!({"k": "zero"}),
                    4 | 5 => json!({"k": "accept", "n": 1 << 30}),
                    6 => json!({"k": "accept", "n": 1}),
                    7 => json!({"k": "accept", "n": 2}),
                    _ => json!({"k": "accept", "n": cx.rng.gen_range(1..400)}),
                };
                evs.push(json!({"e": "write", "o": o}));
            }
        }
        // always finish by writing everything out
        evs.push(json!({"e": "drain"}));
        evs.push(json!({"e": "write", "o": {"k": "accept", "n": 5}}));
        cx.push(script(51200, &WRITE_CMP, 0, evs, "enq_write"));
    }
    // len-1 / len accepts need the offered length: use k = huge for len, and the two-step
    // pattern (accept 1, then huge) which leaves len-1
}

// ---------------------------------------------------------------------------------------
// C11: error-inducing prefix A, continuation B.  Judged after the first error the
// implementation itself reports (cmp contains "c11": the specification restarts there).
// ---------------------------------------------------------------------------------------
pub fn c11(cx: &mut Ctx) {
    let n = if cx.thorough { 1200 } else { 120 };
    let o = cx.opts();
    for i in 0..n {
        let r = gram::valid(&mut cx.rng, &o);
        let cs = gram::corruptions(&r);
        let picks: Vec<usize> = if i % 3 == 0 { (0..cs.len()).collect() } else { (0..5).map(|_| cx.rng.gen_range(0..cs.len())).collect() };
        for p in picks {
            let (name, a) = &cs[p];
            // A, possibly after a valid request, split anywhere (so that the erroring line may
            // be partly buffered before the read that completes it)
            let mut a_stream = vec![];
            if cx.rng.gen_bool(0.25) {
                a_stream.extend(gram::valid(&mut cx.rng, &o).bytes());
            }
            // where the rejected request starts (everything before it is complete, valid requests)
            let rej_at = a_stream.len();
            a_stream.extend(a);
            let a_end = a_stream.len();
            let ka = cx.rng.gen_range(0..3);
            let a_cuts = gram::random_cuts(&mut cx.rng, a_stream.len(), ka);
            let mut evs = reads(&gram::cut(&a_stream, &a_cuts));
            // the limit may be changed while the request that will be rejected is partly received
            let limit2: Option<u128> = if cx.rng.gen_bool(0.25) && evs.len() >= 2 { Some(*[0u128, 5, 30, 51200].choose(&mut cx.rng).unwrap()) } else { None };
            if let Some(l2) = limit2 {
                let k = cx.rng.gen_range(1..evs.len());
                evs.insert(k, json!({"e": "setlimit", "limit": obs::digits(l2)}));
            }
            if cx.rng.gen_bool(0.25) {
                // a descriptor travels with (some read of) the rejected input
                let k = cx.rng.gen_range(0..evs.len());
                if evs[k]["e"] == "read" {
                    cx.next_tag += 1;
                    evs[k]["fds"] = json!([cx.next_tag]);
                }
            }
            // B
            let mut b = vec![];
            for _ in 0..cx.rng.gen_range(1..4) {
                match cx.rng.gen_range(0..8) {
                    0 => b.extend(b"\r\n"),
                    1 => b.extend(b"X-Late: header\r\n"),
                    2 => b.extend(b"Content-Length: 4\r\n\r\n"),
                    3 => b.extend(gram::rand_body(&mut cx.rng, 7)),
                    _ => b.extend(gram::valid(&mut cx.rng, &o).bytes()),
                }
            }
            let kb = cx.rng.gen_range(0..3);
            let b_cuts = gram::random_cuts(&mut cx.rng, b.len(), kb);
            evs.extend(reads(&gram::cut(&b, &b_cuts)));
            let limit = if cx.rng.gen_bool(0.2) { cx.rng.gen_range(0..20) } else { 51200 };
            let mut s = script(limit, &["c11", "res", "popped", "pending", "sent", "wres", "files", "fdleak"], 0, evs, name);
            s["drain_after_read"] = json!(true);
            s["c11_fresh"] = json!(true);
            // (with a limit change before the error the reference connection of c11out would need the same
            //  change at the same point of ITS stream: those scripts are judged by c11cmp only)
            if limit2.is_none() {
                s["rej_at"] = json!(rej_at);
                s["a_end"] = json!(a_end);
            }
            cx.push(s);
        }
    }
}

// ---------------------------------------------------------------------------------------
// C12: descriptors distributed over the reads of well-formed pipelines.
// ---------------------------------------------------------------------------------------
pub fn c12(cx: &mut Ctx) {
    let n = if cx.thorough { 3000 } else { 300 };
    let o = cx.opts();
    for i in 0..n {
        let k = cx.rng.gen_range(1..=4);
        let mut s = vec![];
        for _ in 0..k {
            s.extend(gram::valid(&mut cx.rng, &o).bytes());
        }
        // sometimes leave the last request incomplete so that descriptors stay with the connection
        if cx.rng.gen_bool(0.3) {
            let cutoff = cx.rng.gen_range(1..s.len());
            s.truncate(cutoff);
        } else if cx.rng.gen_bool(0.3) {
            // or end with a malformed request: requests completed earlier in the SAME read keep their descriptors
            let r = gram::valid(&mut cx.rng, &o);
            let cs = gram::corruptions(&r);
            s.extend(&cs[cx.rng.gen_range(0..cs.len())].1);
        }
        let kc = cx.rng.gen_range(0..6);
        let cuts = gram::random_cuts(&mut cx.rng, s.len(), kc);
        let chunks = gram::cut(&s, &cuts);
        let mut evs = vec![];
        for c in &chunks {
            let nf = match cx.rng.gen_range(0..10) {
                0..=4 => 0,
                5..=7 => 1,
                8 => cx.rng.gen_range(2..6),
                _ => if i % 40 == 0 { 253 } else { cx.rng.gen_range(2..20) },
            };
            let fds: Vec<i64> = (0..nf).map(|_| { cx.next_tag += 1; cx.next_tag }).collect();
            evs.push(rd_fds(c, &fds));
            if cx.rng.gen_bool(0.1) {
                evs.push(rd_err(libc::EAGAIN));
            }
        }
        if cx.rng.gen_bool(0.3) {
            cx.next_tag += 1;
            evs.push(json!({"e": "read", "kind": "eof", "fds": [cx.next_tag]}));
        }
        // one script in four belongs to a caller that pops only at the end (requests of several reads queue up)
        let defer = i % 4 == 3;
        let mut sc = if defer { script(51200, &["files_def", "popped", "fdleak"], 0, evs, "fds_defer_pop") } else { script(51200, &["files", "files_rel", "fdleak"], 0, evs, "fds") };
        sc["keep"] = json!(cx.rng.gen_bool(0.5));
        if defer {
            sc["defer_pop"] = json!(true);
        }
        cx.push(sc);
    }
    // the same over a real socket pair with SCM_RIGHTS: small messages (each fits the window and
    // is received whole), at most 8 descriptors per message
    for _ in 0..(if cx.thorough { 1500 } else { 150 }) {
        let k = cx.rng.gen_range(1..=3);
        let mut s = vec![];
        let oo = Opts { max_body: 20, max_uri: 10, fancy: false, max_extra_headers: 2, expect_prob: 0.2 };
        for _ in 0..k {
            s.extend(gram::valid(&mut cx.rng, &oo).bytes());
        }
        if cx.rng.gen_bool(0.3) {
            let cutoff = cx.rng.gen_range(1..s.len());
            s.truncate(cutoff);
        }
        let mut cuts: Vec<usize> = (1..s.len()).filter(|_| cx.rng.gen_bool(0.06)).collect();
        // no message longer than 200 bytes
        let mut last = 0;
        let mut extra = vec![];
        for &c in cuts.iter().chain(std::iter::once(&s.len())) {
            let mut p = last + 200;
            while p < c {
                extra.push(p);
                p += 200;
            }
            last = c;
        }
        cuts.extend(extra);
        cuts.sort();
        cuts.dedup();
        let mut evs = vec![];
        for c in gram::cut(&s, &cuts) {
            if c.is_empty() {
                continue;
            }
            let nf = *[0usize, 0, 0, 1, 1, 2, 8].choose(&mut cx.rng).unwrap();
            let fds: Vec<i64> = (0..nf).map(|_| { cx.next_tag += 1; cx.next_tag }).collect();
            evs.push(rd_fds(&c, &fds));
            if cx.rng.gen_bool(0.1) {
                evs.push(rd_err(libc::EAGAIN));
            }
        }
        let mut sc = script(51200, &["files", "files_rel", "fdleak", "res", "popped"], 0, evs, "fds_real_socket");
        sc["keep"] = json!(cx.rng.gen_bool(0.5));
        sc["real_socket"] = json!(true);
        cx.push(sc);
    }
}

// ---------------------------------------------------------------------------------------
// C13: Expect variations; output drained after every read.
// ---------------------------------------------------------------------------------------
pub fn c13(cx: &mut Ctx) {
    let n = if cx.thorough { 2500 } else { 250 };
    let small = cx.small();
    for _ in 0..n {
        let limit: u128 = *[5u128, 10, 51200].choose(&mut cx.rng).unwrap();
        let k = cx.rng.gen_range(1..=3);
        let mut s = vec![];
        for _ in 0..k {
            let m: &[u8] = *gram::METHODS.choose(&mut cx.rng).unwrap();
            let v: &[u8] = *gram::VERSIONS.choose(&mut cx.rng).unwrap();
            let mut headers: Vec<Vec<u8>> = vec![];
            let exp: Option<&[u8]> = match cx.rng.gen_range(0..10) {
                0..=3 => Some(b"100-continue"),
                4 => Some(b"100-Continue"),
                5 => Some(b"101"),
                6 => Some(b""),
                _ => None,
            };
            if let Some(e) = exp {
                let h = if small { [b"expect:".to_vec(), e.to_vec()].concat() } else { gram::header(&mut cx.rng, b"Expect", e, true) };
                headers.push(h);
            }
            let cl: Option<u128> = match cx.rng.gen_range(0..8) {
                0 => None,
                1 => Some(0),
                2 if limit <= 1000 || cx.rng.gen_bool(0.05) => Some(limit),
                3 => Some(limit + 1),
                _ => Some(cx.rng.gen_range(1..=limit.min(30))),
            };
            let mut body = vec![];
            if let Some(c) = cl {
                let h = format!("Content-Length: {}", c).into_bytes();
                if cx.rng.gen_bool(0.5) {
                    headers.push(h);
                } else {
                    headers.insert(0, h);
                }
                if c <= limit {
                    body = gram::rand_body(&mut cx.rng, c as usize);
                }
            }
            if exp.is_some() && cx.rng.gen_bool(0.2) {
                headers.push(b"Expect: 100-continue".to_vec());
            }
            // a second Expect line with another (unsupported or supported) value, before or after
            if cx.rng.gen_bool(0.25) {
                let other: &[u8] = *[&b"Expect: 102-processing"[..], b"expect:", b"EXPECT: 100-continue", b"Expect: 100-continue, x"].choose(&mut cx.rng).unwrap();
                if cx.rng.gen_bool(0.5) {
                    headers.push(other.to_vec());
                } else {
                    headers.insert(0, other.to_vec());
                }
            }
            let r = Req { method: m.to_vec(), uri: b"/e".to_vec(), version: v.to_vec(), headers, body };
            s.extend(r.bytes());
        }
        let cuts: Vec<Vec<usize>> = if s.len() < 2000 && cx.rng.gen_bool(0.3) {
            let mut ic = gram::interesting_cuts(&s, cx.buf);
            ic.shuffle(&mut cx.rng);
            ic.into_iter().take(40).map(|c| vec![c]).collect()
        } else {
            vec![vec![], gram::random_cuts(&mut cx.rng, s.len(), 1), gram::random_cuts(&mut cx.rng, s.len(), 3)]
        };
        for c in cuts {
            let mut sc = script(limit, &["sent", "wres", "pending", "popped"], 0, reads(&gram::cut(&s, &c)), "expect");
            sc["drain_after_read"] = json!(true);
            sc["stop_on_error"] = json!(true);
            cx.push(sc);
        }
    }
}

// ---------------------------------------------------------------------------------------
// C03: arbitrary bytes, arbitrary schedules, continued use after every kind of error.
// ---------------------------------------------------------------------------------------
fn mutate(rng: &mut StdRng, mut b: Vec<u8>) -> Vec<u8> {
    for _ in 0..rng.gen_range(1..6) {
        if b.is_empty() {
            b.push(rng.gen());
            continue;
        }
        let i = rng.gen_range(0..b.len());
        match rng.gen_range(0..8) {
            0 => b[i] ^= 1 << rng.gen_range(0..8),
            1 => b[i] = *[0u8, b'\r', b'\n', 0x80, 0xff, 0xc0, 0xe2, b' ', b':'].choose(rng).unwrap(),
            2 => { b.insert(i, *[0u8, b'\r', b'\n', 0x80, 0xff, b' ', b':'].choose(rng).unwrap()); }
            3 => { b.truncate(i); }
            4 => { let d = b[i..].to_vec(); b.extend(d); }
            5 => { b.remove(i); }
            6 => { let j = rng.gen_range(0..b.len()); b.swap(i, j); }
            _ => { let n = rng.gen_range(1..2000); let c = b[i]; for _ in 0..n { b.insert(i, c); } }
        }
    }
    b
}

/// Streams in which a complete element (request without body, request with body, header block) ends on or
/// next to the last byte of a FULL receive window and is followed by each kind of next byte (CR, CRLF, LF,
/// a letter, another request): whatever peeks at "the byte after" must stay inside the window.
pub fn edge_tails(cx: &mut Ctx, cmp: &[&str], note: &str, stop_on_error: bool) {
    let buf = crate::BUF;
    let tails: [&[u8]; 8] = [b"\r", b"\r\n", b"\r\nGET / HTTP/1.1\r\n\r\n", b"\n", b"\r\r\n", b"G", b"\r\n\r\n", b"GET /n HTTP/1.0\r\n\r\n"];
    for l in (buf - 4)..=(buf + 2) {
        let mut heads: Vec<Vec<u8>> = vec![];
        // request line + blank line, exactly l bytes
        let mut r = b"GET /".to_vec();
        r.extend(std::iter::repeat(b'a').take(l - 18));
        r.extend(b" HTTP/1.1\r\n\r\n");
        heads.push(r);
        if l >= 46 {
            // body ends at l
            let mut r = b"PUT /".to_vec();
            r.extend(std::iter::repeat(b'b').take(l - 43));
            r.extend(b" HTTP/1.1\r\nContent-Length: 3\r\n\r\nxyz");
            heads.push(r);
            // a custom header line ends at l - 2, the blank line at l
            let mut r = b"GET / HTTP/1.1\r\nX-Pad: ".to_vec();
            r.extend(std::iter::repeat(b'c').take(l - 27));
            r.extend(b"\r\n\r\n");
            heads.push(r);
        }
        for h in &heads {
            for t in tails.iter() {
                let mut s = h.clone();
                s.extend(*t);
                // maximal reads (full windows), and a first read of exactly one window
                let mut sc = script(51200, cmp, 0, vec![rd(&s)], note);
                sc["stop_on_error"] = json!(stop_on_error);
                cx.push(sc);
                if s.len() > buf {
                    let mut sc = script(51200, cmp, 0, vec![rd(&s[..buf]), rd(&s[buf..])], note);
                    sc["stop_on_error"] = json!(stop_on_error);
                    cx.push(sc);
                }
            }
        }
    }
}

/// Declared lengths at the integer boundaries with the payload limit raised to 2^32 - 1: the head is accepted,
/// body bytes start to arrive (in the same read as the head, in later reads, in full windows).
pub fn huge_lengths(cx: &mut Ctx, cmp: &[&str], note: &str) {
    for n in [4294967295u64, 4294967294, 4294967236, 4294967200, 4294966272, 2147483648, 2147483647, 65536] {
        for pad in [0usize, 30] {
            let mut head = b"PUT /".to_vec();
            head.extend(std::iter::repeat(b'h').take(pad));
            head.extend(format!(" HTTP/1.1\r\nContent-Length: {}\r\n\r\n", n).as_bytes());
            let body: Vec<u8> = (0..2500).map(|i| b'a' + (i % 26) as u8).collect();
            // head and first body bytes in one read, then more body
            let mut one = head.clone();
            one.extend(&body[..700]);
            cx.push(script(4294967295, cmp, 0, vec![rd(&one), rd(&body[700..])], note));
            // head alone, then body in two reads with an empty read in between
            cx.push(script(4294967295, cmp, 0, vec![rd(&head), rd(&body[..1024]), rd_err(libc::EAGAIN), rd(&body[1024..])], note));
        }
    }
}

pub fn c03(cx: &mut Ctx) {
    huge_lengths(cx, &["nopanic", "recvs", "calls"], "huge_length");
    edge_tails(cx, &["nopanic", "recvs", "calls"], "edge_tail", false);
    let n = if cx.thorough { 8000 } else { 800 };
    let o = cx.opts();
    for i in 0..n {
        let base: Vec<u8> = match i % 5 {
            0 => { let len = cx.rng.gen_range(0..300); (0..len).map(|_| cx.rng.gen()).collect() }
            1 => gram::valid(&mut cx.rng, &o).bytes(),
            2 => { let r = gram::valid(&mut cx.rng, &o); let cs = gram::corruptions(&r); cs[cx.rng.gen_range(0..cs.len())].1.clone() }
            3 => {
                // large: up to ~60 KiB
                let mut r = gram::valid(&mut cx.rng, &o);
                let blen = cx.rng.gen_range(0..60000);
                r.body = gram::rand_body(&mut cx.rng, blen);
                r.headers.push(format!("Content-Length: {}", blen).into_bytes());
                r.bytes()
            }
            _ => { let mut v = vec![]; for _ in 0..cx.rng.gen_range(1..4) { v.extend(gram::valid(&mut cx.rng, &o).bytes()); } v }
        };
        let stream = if i % 5 == 0 || cx.rng.gen_bool(0.6) { mutate(&mut cx.rng, base) } else { base };
        let kc = cx.rng.gen_range(0..8);
        let cuts = gram::random_cuts(&mut cx.rng, stream.len(), kc);
        let mut evs = vec![];
        for c in gram::cut(&stream, &cuts) {
            if c.is_empty() {
                continue;
            }
            evs.push(rd(&c));
            match cx.rng.gen_range(0..12) {
                0 => evs.push(rd_err(libc::EAGAIN)),
                1 => evs.push(rd_err(libc::EINTR)),
                2 => evs.push(rd_err(libc::ECONNRESET)),
                3 => evs.push(json!({"e": "read", "kind": "eof", "fds": []})),
                4 => evs.push(json!({"e": "write", "o": {"k": "accept", "n": cx.rng.gen_range(1..50)}})),
                5 => evs.push(json!({"e": "write", "o": {"k": *["eintr", "eagain", "epipe", "zero"].choose(&mut cx.rng).unwrap()}})),
                6 => evs.push(json!({"e": "enq", "resp": rand_resp(&mut cx.rng, 100)})),
                7 => evs.push(json!({"e": "drain"})),
                _ => {}
            }
        }
        let limit = *[0u128, 3, 51200, 4294967295].choose(&mut cx.rng).unwrap();
        cx.push(script(limit, &["nopanic", "recvs", "calls"], 0, evs, "fuzz"));
    }
}

pub fn generate(prop: &str, cx: &mut Ctx) -> bool {
    match prop {
        "C01" => c01(cx),
        "C02" => c02(cx),
        "C03" => c03(cx),
        "C04" => c04(cx),
        "C06" => c06(cx),
        "C11" => c11(cx),
        "C12" => c12(cx),
        "C13" => c13(cx),
        _ => return false,
    }
    true
}
