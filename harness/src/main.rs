use mh_harness::{connexec, conngen};
use std::io::{BufRead, Write};

fn usage() -> ! {
    eprintln!("usage: mh gen-conn <prop> <tier> <seed> | exec-conn [tagdir]  (scripts on stdin, trace on stdout)");
    std::process::exit(2)
}

fn main() {
    let args: Vec<String> = std::env::args().collect();
    if args.len() < 2 {
        usage();
    }
    match args[1].as_str() {
        "gen-conn" => {
            if args.len() < 5 {
                usage();
            }
            let seed: u64 = args[4].parse().unwrap_or(1);
            let thorough = args[3] == "thorough";
            let mut cx = conngen::Ctx::new(seed, thorough);
            if !conngen::generate(args[2].as_str(), &mut cx) {
                usage();
            }
            let stdout = std::io::stdout();
            let mut w = std::io::BufWriter::new(stdout.lock());
            for s in &cx.out {
                writeln!(w, "{}", s).unwrap();
            }
        }
        "exec-conn" => {
            let tagdir = args.get(2).cloned().unwrap_or_else(|| "/verif/work/fdtags".to_string());
            let tags = connexec::TagFiles::new(&tagdir);
            // silence the default panic message: a panic in the code under test is data
            std::panic::set_hook(Box::new(|_| {}));
            // Read all scripts first, then close descriptor 0: a detached service has no stdin, and
            // the first descriptor it receives is then numbered 0 (lowest free number).
            let mut input = String::new();
            std::io::Read::read_to_string(&mut std::io::stdin(), &mut input).unwrap();
            // SAFETY: stdin is not used any more.
            unsafe { libc::close(0) };
            let stdout = std::io::stdout();
            let mut w = std::io::BufWriter::with_capacity(1 << 20, stdout.lock());
            for line in input.lines() {
                if line.trim().is_empty() {
                    continue;
                }
                let script: serde_json::Value = serde_json::from_str(line).unwrap();
                connexec::run_script(&script, &tags, &mut w);
                w.flush().unwrap();
            }
        }
        "gen-fn" => {
            if args.len() < 5 {
                usage();
            }
            let seed: u64 = args[4].parse().unwrap_or(1);
            let mut fx = mh_harness::fngen::Fx::new(seed, args[3] == "thorough");
            if !mh_harness::fngen::generate(&args[2], &mut fx) {
                usage();
            }
            let stdout = std::io::stdout();
            let mut w = std::io::BufWriter::new(stdout.lock());
            for c in &fx.out {
                writeln!(w, "{}", c).unwrap();
            }
        }
        "exec-fn" => {
            std::panic::set_hook(Box::new(|_| {}));
            let stdin = std::io::stdin();
            let stdout = std::io::stdout();
            let mut w = std::io::BufWriter::with_capacity(1 << 20, stdout.lock());
            for line in stdin.lock().lines() {
                let line = line.unwrap();
                if line.trim().is_empty() {
                    continue;
                }
                let case: serde_json::Value = serde_json::from_str(&line).unwrap();
                mh_harness::fnexec::run_case(&case, &mut w);
                w.flush().unwrap();
            }
        }
        "srv" => {
            // mh srv <domain> <seed> <n-histories> [sockdir]
            if args.len() < 5 {
                usage();
            }
            let seed: u64 = args[3].parse().unwrap_or(1);
            let n: usize = args[4].parse().unwrap_or(10);
            let dir = args.get(5).cloned().unwrap_or_else(|| "/verif/work/sock".to_string());
            std::panic::set_hook(Box::new(|_| {}));
            let stdout = std::io::stdout();
            let mut w = std::io::BufWriter::with_capacity(1 << 20, stdout.lock());
            mh_harness::srvgen::run(&args[2], seed, n, &dir, &mut w);
            w.flush().unwrap();
        }
        "srv-replay" => {
            // mh srv-replay <steps.json> [sockdir]
            let dir = args.get(3).cloned().unwrap_or_else(|| "/verif/work/sock".to_string());
            let stdout = std::io::stdout();
            let mut w = std::io::BufWriter::new(stdout.lock());
            if args[2].ends_with(".ndjson") {
                mh_harness::srvgen::replay_many(&args[2], &dir, &mut w);
            } else {
                let steps: serde_json::Value = serde_json::from_str(&std::fs::read_to_string(&args[2]).unwrap()).unwrap();
                mh_harness::srvgen::replay(&steps, &dir, &mut w);
            }
            w.flush().unwrap();
        }
        "info" => {
            println!("{{\"buf\":{},\"max_conn\":{}}}", mh_harness::BUF, mh_harness::MAX_CONN);
        }
        _ => usage(),
    }
}
