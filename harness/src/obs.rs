//! Projection of the crate's API-visible values to JSON (the only thing verdicts use).
use micro_http::{
    ConnectionError, HttpHeaderError, MediaType, Method, Request, RequestError, Version,
};
use serde_json::{json, Value};
use std::os::unix::fs::FileExt;

pub fn bytes(b: &[u8]) -> Value {
    Value::Array(b.iter().map(|x| json!(*x)).collect())
}

pub fn from_bytes(v: &Value) -> Vec<u8> {
    v.as_array()
        .map(|a| a.iter().map(|x| x.as_u64().unwrap_or(0) as u8).collect())
        .unwrap_or_default()
}

/// decimal digits of an unsigned number, most significant first (TLC integers are 32-bit)
pub fn digits(n: u128) -> Value {
    Value::Array(n.to_string().bytes().map(|c| json!(c - b'0')).collect())
}

pub fn from_digits(v: &Value) -> u128 {
    let mut n: u128 = 0;
    if let Some(a) = v.as_array() {
        for d in a {
            n = n * 10 + d.as_u64().unwrap_or(0) as u128;
        }
    }
    n
}

pub fn method(m: Method) -> &'static str {
    match m {
        Method::Get => "GET",
        Method::Put => "PUT",
        Method::Patch => "PATCH",
    }
}

pub fn version(v: Version) -> &'static str {
    match v {
        Version::Http10 => "1.0",
        Version::Http11 => "1.1",
    }
}

pub fn media(m: MediaType) -> &'static str {
    match m {
        MediaType::PlainText => "text",
        MediaType::ApplicationJson => "json",
    }
}

pub fn err(t: &str, a: &[u8], b: &[u8], n: u64, m: u64) -> Value {
    json!({"t": t, "a": bytes(a), "b": bytes(b), "n": n, "m": m})
}

pub fn no_err() -> Value {
    err("none", b"", b"", 0, 0)
}

fn digit_bytes(n: usize) -> Vec<u8> {
    n.to_string().bytes().map(|c| c - b'0').collect()
}

pub fn request_error(e: &RequestError) -> Value {
    match e {
        RequestError::BodyWithoutPendingRequest => err("BodyWithoutPendingRequest", b"", b"", 0, 0),
        RequestError::HeadersWithoutPendingRequest => {
            err("HeadersWithoutPendingRequest", b"", b"", 0, 0)
        }
        RequestError::InvalidHttpMethod(_) => err("InvalidHttpMethod", b"", b"", 0, 0),
        RequestError::InvalidHttpVersion(_) => err("InvalidHttpVersion", b"", b"", 0, 0),
        RequestError::InvalidRequest => err("InvalidRequest", b"", b"", 0, 0),
        RequestError::InvalidUri(s) => {
            let n = if s.contains("Empty") { 0 } else { 1 };
            err("InvalidUri", b"", b"", n, 0)
        }
        RequestError::Overflow => err("Overflow", b"", b"", 0, 0),
        RequestError::Underflow => err("Underflow", b"", b"", 0, 0),
        RequestError::SizeLimitExceeded(l, n) => {
            err("SizeLimitExceeded", &digit_bytes(*l), &digit_bytes(*n), 0, 0)
        }
        RequestError::HeaderError(h) => match h {
            HttpHeaderError::InvalidFormat(s) => err("H.InvalidFormat", s.as_bytes(), b"", 0, 0),
            HttpHeaderError::InvalidUtf8String(u) => err(
                "H.InvalidUtf8String",
                b"",
                b"",
                u.valid_up_to() as u64,
                u.error_len().unwrap_or(0) as u64,
            ),
            HttpHeaderError::InvalidValue(a, b) => {
                err("H.InvalidValue", a.as_bytes(), b.as_bytes(), 0, 0)
            }
            HttpHeaderError::SizeLimitExceeded(s) => {
                err("H.SizeLimitExceeded", s.as_bytes(), b"", 0, 0)
            }
            HttpHeaderError::UnsupportedFeature(a, b) => {
                err("H.UnsupportedFeature", a.as_bytes(), b.as_bytes(), 0, 0)
            }
            HttpHeaderError::UnsupportedName(a) => err("H.UnsupportedName", a.as_bytes(), b"", 0, 0),
            HttpHeaderError::UnsupportedValue(a, b) => {
                err("H.UnsupportedValue", a.as_bytes(), b.as_bytes(), 0, 0)
            }
        },
    }
}

pub fn conn_result(r: &Result<(), ConnectionError>) -> Value {
    match r {
        Ok(()) => json!({"k": "Ok", "e": no_err()}),
        Err(ConnectionError::ConnectionClosed) => json!({"k": "ConnectionClosed", "e": no_err()}),
        Err(ConnectionError::InvalidWrite) => json!({"k": "InvalidWrite", "e": no_err()}),
        Err(ConnectionError::StreamReadError(_)) => json!({"k": "StreamReadError", "e": no_err()}),
        Err(ConnectionError::StreamWriteError(_)) => json!({"k": "StreamWriteError", "e": no_err()}),
        Err(ConnectionError::ParseError(e)) => json!({"k": "ParseError", "e": request_error(e)}),
    }
}

pub fn panic_result() -> Value {
    json!({"k": "panic", "e": no_err()})
}

/// Tag readable from a descriptor handed out by the harness (content of the temp file).
pub fn file_tag(f: &std::fs::File) -> i64 {
    let mut buf = [0u8; 32];
    match f.read_at(&mut buf, 0) {
        Ok(n) => std::str::from_utf8(&buf[..n])
            .ok()
            .and_then(|s| s.trim().parse::<i64>().ok())
            .unwrap_or(-1),
        Err(_) => -2,
    }
}

/// Headers projected through the public accessors.
pub fn headers(h: &micro_http::Headers) -> Value {
    let mut custom: Vec<(Vec<u8>, Vec<u8>)> = h
        .custom_entries()
        .iter()
        .map(|(k, v)| (k.as_bytes().to_vec(), v.as_bytes().to_vec()))
        .collect();
    custom.sort();
    json!({
        "cl": digits(h.content_length() as u128),
        "expect": h.expect(),
        "chunked": h.chunked(),
        "accept": media(h.accept()),
        "custom": Value::Array(custom.iter().map(|(k, v)| json!([bytes(k), bytes(v)])).collect()),
    })
}

pub fn request(r: &Request) -> Value {
    // The URI is only reachable as its absolute path or through Debug; Debug prints the
    // inner String with escapes, so recover the raw text through the path accessor when
    // possible and fall back to the Debug form otherwise.
    let uri = uri_text(r);
    json!({
        "m": method(r.method()),
        "uri": bytes(uri.as_bytes()),
        "v": version(r.http_version()),
        "h": headers(&r.headers),
        "body": bytes(r.body.as_ref().map_or(&[][..], |b| b.raw())),
        "hasBody": r.body.is_some(),
        "files": Value::Array(r.files.iter().map(|f| json!(file_tag(f))).collect()),
    })
}

/// The URI string of a request.  `Uri` exposes only `get_abs_path`; its Debug output is
/// `Uri { string: "<escaped>" }`, which we un-escape (Rust's `str` Debug escaping).
pub fn uri_text(r: &Request) -> String {
    let dbg = format!("{:?}", r.uri());
    let start = dbg.find('"').map(|i| i + 1).unwrap_or(0);
    let end = dbg.rfind('"').unwrap_or(dbg.len());
    unescape_debug(&dbg[start..end])
}

fn unescape_debug(s: &str) -> String {
    let mut out = String::new();
    let mut it = s.chars().peekable();
    while let Some(c) = it.next() {
        if c != '\\' {
            out.push(c);
            continue;
        }
        match it.next() {
            Some('n') => out.push('\n'),
            Some('r') => out.push('\r'),
            Some('t') => out.push('\t'),
            Some('0') => out.push('\0'),
            Some('\\') => out.push('\\'),
            Some('"') => out.push('"'),
            Some('\'') => out.push('\''),
            Some('u') => {
                // \u{XXXX}
                let mut hex = String::new();
                if it.next() == Some('{') {
                    for h in it.by_ref() {
                        if h == '}' {
                            break;
                        }
                        hex.push(h);
                    }
                }
                if let Some(ch) = u32::from_str_radix(&hex, 16).ok().and_then(char::from_u32) {
                    out.push(ch);
                }
            }
            Some(o) => {
                out.push('\\');
                out.push(o);
            }
            None => out.push('\\'),
        }
    }
    out
}
