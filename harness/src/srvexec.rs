//! Server-level driver: the real `HttpServer` over real Unix sockets, single-threaded.
//! The harness is the canonical caller: `requests()` is called only when poll(2) on the
//! server's epoll descriptor reports readiness (so it can never block), and that flag is
//! logged before EVERY step.  One trace event per step, after the step returned.
use crate::obs;
use micro_http::{Body, HttpServer, Response, ServerError, ServerRequest, StatusCode, Version};
use serde_json::{json, Value};
use std::io::{Read, Write};
use std::net::Shutdown;
use std::os::unix::io::AsRawFd;
use std::os::unix::net::UnixStream;
use vmm_sys_util::eventfd::EventFd;

pub struct Client {
    /// socket created up-front (so that later accepts of the server reuse freed numbers)
    pub raw: i32,
    pub sock: Option<UnixStream>,
    pub wr_shut: bool,
    pub rd_shut: bool,
    pub ever: bool,
}

pub struct Driver {
    pub server: HttpServer,
    pub path: String,
    pub clients: Vec<Client>,
    /// requests the application holds: (client, tag bytes, request)
    pub held: Vec<(usize, Vec<u8>, ServerRequest)>,
    pub kill: Option<EventFd>,
    pub listener_fd: i32,
    pub epoll_fd: i32,
    pub kill_fd: i32,
    /// client actions really performed inside the last requests() call (op, client)
    pub last_mid: Vec<(String, usize)>,
    pub base_fds: usize,
    /// files whose content is their tag: what clients pass to the server with SCM_RIGHTS
    pub tags: crate::connexec::TagFiles,
}

/// Open descriptors of this process (the handle used for the listing itself excluded).
pub fn fd_list() -> Vec<i32> {
    let me = format!("/proc/{}/fd", std::process::id());
    let mut v: Vec<i32> = std::fs::read_dir("/proc/self/fd")
        .map(|d| {
            d.filter_map(|e| {
                let e = e.ok()?;
                let n: i32 = e.file_name().to_str()?.parse().ok()?;
                match std::fs::read_link(e.path()) {
                    Ok(t) if t.to_string_lossy() == me => None,
                    _ => Some(n),
                }
            })
            .collect()
        })
        .unwrap_or_default();
    v.sort();
    v
}

fn epoll_ready(epfd: i32) -> bool {
    let mut p = libc::pollfd { fd: epfd, events: libc::POLLIN, revents: 0 };
    // SAFETY: valid pollfd, zero timeout.
    let n = unsafe { libc::poll(&mut p, 1, 0) };
    n > 0 && (p.revents & libc::POLLIN) != 0
}

/// URI of a tagged request: /c<client>/<n>
pub fn tag_uri(c: usize, n: usize) -> Vec<u8> {
    format!("/c{}/{}", c, n).into_bytes()
}

fn client_of_uri(uri: &[u8]) -> Option<usize> {
    let s = std::str::from_utf8(uri).ok()?;
    let rest = s.strip_prefix("/c")?;
    let end = rest.find('/')?;
    rest[..end].parse().ok()
}

impl Driver {
    /// `prekill`: the eventfd is signalled BEFORE it is handed to `add_kill_switch` (a shutdown requested
    /// while the server is still being set up must not be lost)
    pub fn new(nclients: usize, limit: usize, with_kill: bool, prekill: bool, sock_dir: &str, hist: u64, out: &mut dyn Write) -> Driver {
        std::fs::create_dir_all(sock_dir).ok();
        let path = format!("{}/s{}-{}.sock", sock_dir, std::process::id(), hist);
        let _ = std::fs::remove_file(&path);
        micro_http::verif::drain();
        let before = fd_list();
        // two ways to construct the server: bind by path, or adopt a listener we bound ourselves
        let from_fd = hist % 3 == 1;
        let mut server = if from_fd {
            let l = std::os::unix::net::UnixListener::bind(&path).expect("bind");
            let fd = std::os::unix::io::IntoRawFd::into_raw_fd(l);
            // SAFETY: fd is a listener we own and hand over.
            unsafe { HttpServer::new_from_fd(fd).expect("server") }
        } else {
            HttpServer::new(&path).expect("server")
        };
        let after = fd_list();
        let newfds: Vec<i32> = after.iter().cloned().filter(|f| !before.contains(f)).collect();
        let epoll_fd = server.epoll().as_raw_fd();
        let listener_fd = newfds.iter().cloned().find(|f| *f != epoll_fd).unwrap_or(-1);
        server.set_payload_max_size(limit);
        // the kill switch may be registered before or after start_server
        let kill_late = hist % 2 == 1;
        if kill_late {
            server.start_server().unwrap();
        }
        let (kill, kill_fd) = if with_kill {
            let k = EventFd::new(libc::EFD_NONBLOCK).unwrap();
            let mine = k.try_clone().unwrap();
            let fd = k.as_raw_fd();
            if prekill {
                mine.write(1).unwrap();
            }
            server.add_kill_switch(k).unwrap();
            (Some(mine), fd)
        } else {
            (None, -1)
        };
        if !kill_late {
            server.start_server().unwrap();
        }
        let clients = (0..nclients)
            .map(|_| {
                // SAFETY: plain socket(2) call.
                let raw = unsafe { libc::socket(libc::AF_UNIX, libc::SOCK_STREAM | libc::SOCK_CLOEXEC, 0) };
                Client { raw, sock: None, wr_shut: false, rd_shut: false, ever: false }
            })
            .collect();
        let tags = crate::connexec::TagFiles::new(&format!("{}/tags-{}", sock_dir, std::process::id()));
        let d = Driver { server, path, clients, held: vec![], kill, listener_fd, epoll_fd, kill_fd, last_mid: vec![], base_fds: 0, tags };
        let line = json!({"e": "reset", "hist": hist, "maxconn": crate::MAX_CONN, "buf": crate::BUF, "limit": obs::digits(limit as u128),
                          "kill": with_kill, "lfd": listener_fd, "kfd": kill_fd, "nclients": nclients, "from_fd": from_fd, "kill_late": kill_late, "prekill": with_kill && prekill,
                          "srvfds": d.server_fd_count()});
        writeln!(out, "{}", line).unwrap();
        d
    }

    /// descriptors owned by the server = all open descriptors that are not the harness's
    pub fn server_fd_count(&self) -> usize {
        let mine: Vec<i32> = self.clients.iter().filter_map(|c| if c.raw >= 0 { Some(c.raw) } else { None })
            .chain(self.kill.as_ref().map(|k| k.as_raw_fd())).collect();
        let all = fd_list();
        // stdin, stdout, stderr and the directory handle used for listing are excluded
        all.iter().filter(|f| **f > 2 && !mine.contains(f)).count()
    }

    pub fn ready(&self) -> bool {
        epoll_ready(self.epoll_fd)
    }

    /// Executes one step, logs it.  Returns false if the step could not be executed.
    pub fn step(&mut self, st: &Value, out: &mut dyn Write) -> bool {
        let ready = self.ready();
        let kind = st["e"].as_str().unwrap_or("");
        let c = st["c"].as_u64().unwrap_or(0) as usize;
        let mut line = json!({"e": kind, "ready": ready});
        if st.get("c").is_some() {
            line["c"] = json!(c);
        }
        match kind {
            "connect" => {
                if c == 0 || c > self.clients.len() || self.clients[c - 1].ever {
                    return false;
                }
                let raw = self.clients[c - 1].raw;
                let rc = connect_unix(raw, &self.path);
                self.clients[c - 1].ever = true;
                if rc == 0 {
                    // SAFETY: raw is a connected socket we own.
                    let s = unsafe { <UnixStream as std::os::unix::io::FromRawFd>::from_raw_fd(raw) };
                    s.set_nonblocking(true).unwrap();
                    self.clients[c - 1].sock = Some(s);
                    line["res"] = json!("ok");
                } else {
                    line["res"] = json!("err");
                }
            }
            "send" => {
                let bytes = obs::from_bytes(&st["bytes"]);
                let want_fds: Vec<i64> = st["fds"].as_array().map(|a| a.iter().filter_map(|t| t.as_i64()).collect()).unwrap_or_default();
                let raw_fds: Vec<i32> = want_fds.iter().map(|t| self.tags.open(*t)).collect();
                let Some(s) = self.clients.get_mut(c.wrapping_sub(1)).and_then(|c| c.sock.as_mut()) else {
                    for fd in raw_fds {
                        // SAFETY: descriptors opened above and owned here.
                        unsafe { libc::close(fd) };
                    }
                    return false;
                };
                // one sendmsg: the descriptors (if any) are ancillary data of exactly this message
                let r = if raw_fds.is_empty() {
                    s.write(&bytes)
                } else {
                    use vmm_sys_util::sock_ctrl_msg::ScmSocket;
                    s.send_with_fds(&[&bytes[..]], &raw_fds).map_err(|e| std::io::Error::from_raw_os_error(e.errno()))
                };
                // our copies are closed at once: what the server receives are its own duplicates
                for fd in raw_fds {
                    // SAFETY: descriptors opened above and owned here.
                    unsafe { libc::close(fd) };
                }
                match r {
                    Ok(n) if n > 0 => {
                        line["bytes"] = obs::bytes(&bytes[..n]);
                        line["fds"] = json!(want_fds);
                        line["res"] = json!("ok");
                    }
                    Ok(_) => {
                        line["bytes"] = json!([]);
                        line["fds"] = json!([]);
                        line["res"] = json!("ok");
                    }
                    Err(e) => {
                        line["bytes"] = json!([]);
                        line["fds"] = json!([]);
                        line["res"] = json!(format!("err:{:?}", e.kind()));
                    }
                }
            }
            "recv" => {
                let Some(s) = self.clients.get_mut(c.wrapping_sub(1)).and_then(|c| c.sock.as_mut()) else { return false };
                let mut buf = vec![0u8; st["max"].as_u64().unwrap_or(1 << 20) as usize];
                match s.read(&mut buf) {
                    Ok(0) => {
                        line["bytes"] = json!([]);
                        line["state"] = json!("eof");
                    }
                    Ok(n) => {
                        line["bytes"] = obs::bytes(&buf[..n]);
                        line["state"] = json!("data");
                    }
                    Err(e) if e.kind() == std::io::ErrorKind::WouldBlock => {
                        line["bytes"] = json!([]);
                        line["state"] = json!("wouldblock");
                    }
                    Err(_) => {
                        line["bytes"] = json!([]);
                        line["state"] = json!("reset");
                    }
                }
            }
            "close" => {
                let Some(cl) = self.clients.get_mut(c.wrapping_sub(1)) else { return false };
                if cl.sock.is_none() {
                    return false;
                }
                cl.sock = None;
                cl.raw = -1;
            }
            "shutwr" | "shutrd" => {
                let Some(cl) = self.clients.get_mut(c.wrapping_sub(1)) else { return false };
                let Some(s) = cl.sock.as_ref() else { return false };
                if kind == "shutwr" {
                    let _ = s.shutdown(Shutdown::Write);
                    cl.wr_shut = true;
                } else {
                    let _ = s.shutdown(Shutdown::Read);
                    cl.rd_shut = true;
                }
            }
            "respond" => {
                // respond to the held request (client c, index k among that client's held requests)
                let k = st["k"].as_u64().unwrap_or(0) as usize;
                let idxs: Vec<usize> = self.held.iter().enumerate().filter(|(_, h)| h.0 == c).map(|(i, _)| i).collect();
                if idxs.is_empty() {
                    return false;
                }
                let (_, tag, req) = self.held.remove(idxs[k % idxs.len()]);
                let pad = st["pad"].as_u64().unwrap_or(0) as usize;
                let mut body = tag.clone();
                body.extend(std::iter::repeat(b'.').take(pad));
                let code = st["code"].as_u64().unwrap_or(200);
                let mk = |b: &[u8]| {
                    let mut r = Response::new(Version::Http11, if code == 204 { StatusCode::NoContent } else { StatusCode::OK });
                    if code != 204 {
                        r.set_body(Body::new(b.to_vec()));
                    }
                    r
                };
                let mut ser = vec![];
                mk(&body).write_all(&mut ser).unwrap();
                micro_http::verif::drain();
                let resp = req.process(|_| mk(&body));
                let r = self.server.respond(resp);
                line["tag"] = obs::bytes(&tag);
                line["ser"] = obs::bytes(&ser);
                line["res"] = json!(srv_res(&r.map(|_| vec![])));
                line["hooks"] = hooks();
            }
            "respond_many" => {
                // answer up to n held requests (any clients) with one enqueue_responses call
                let n = (st["n"].as_u64().unwrap_or(2) as usize).min(self.held.len());
                if n == 0 {
                    return false;
                }
                let mut items = vec![];
                let mut batch = vec![];
                for _ in 0..n {
                    let (c, tag, req) = self.held.remove(0);
                    let body = tag.clone();
                    let mk = |b: &[u8]| {
                        let mut r = Response::new(Version::Http11, StatusCode::OK);
                        r.set_body(Body::new(b.to_vec()));
                        r
                    };
                    let mut ser = vec![];
                    mk(&body).write_all(&mut ser).unwrap();
                    items.push(json!({"c": c, "tag": obs::bytes(&tag), "ser": obs::bytes(&ser)}));
                    batch.push(req.process(|_| mk(&body)));
                }
                micro_http::verif::drain();
                let r = self.server.enqueue_responses(batch);
                line["items"] = json!(items);
                line["res"] = json!(srv_res(&r.map(|_| vec![])));
                line["hooks"] = hooks();
            }
            "flush" => {
                micro_http::verif::drain();
                self.server.flush_outgoing_writes();
                line["hooks"] = hooks();
            }
            "kill" => {
                let Some(k) = self.kill.as_ref() else { return false };
                k.write(1).unwrap();
            }
            "setlimit" => {
                let n = obs::from_digits(&st["limit"]) as usize;
                self.server.set_payload_max_size(n);
                line["limit"] = st["limit"].clone();
            }
            "poll" => {
                line["called"] = json!(ready);
                if ready {
                    micro_http::verif::drain();
                    // race injection: client actions performed INSIDE the call, right before the server
                    // handles the k-th element of the batch (hook `at_event`); each one is logged in the
                    // hook list at the point where it happened ({"h":"mid",...})
                    let mut plan: Vec<(usize, String, usize, i32, Vec<u8>)> = vec![];
                    for m in st["mid"].as_array().cloned().unwrap_or_default() {
                        let mc = m["c"].as_u64().unwrap_or(0) as usize;
                        let fd = self.clients.get(mc.wrapping_sub(1)).and_then(|c| c.sock.as_ref()).map(|s| s.as_raw_fd());
                        if let Some(fd) = fd {
                            plan.push((m["at"].as_u64().unwrap_or(0) as usize, m["op"].as_str().unwrap_or("").to_string(), mc, fd, obs::from_bytes(&m["bytes"])));
                        }
                    }
                    let armed = !plan.is_empty();
                    if armed {
                        let mut k = 0usize;
                        let mut gone: Vec<usize> = vec![];
                        micro_http::verif::set_at_event(Some(Box::new(move |_fd| {
                            for (at, op, mc, fd, bytes) in plan.iter() {
                                if *at != k || gone.contains(mc) {
                                    continue;
                                }
                                // SAFETY: plain socket calls on descriptors the harness owns.
                                let n = unsafe {
                                    match op.as_str() {
                                        // what the peer sees is that of close(2); the descriptor itself is closed after the call
                                        "close" => { gone.push(*mc); libc::shutdown(*fd, libc::SHUT_RDWR) as isize }
                                        "shutwr" => libc::shutdown(*fd, libc::SHUT_WR) as isize,
                                        "shutrd" => libc::shutdown(*fd, libc::SHUT_RD) as isize,
                                        _ => libc::send(*fd, bytes.as_ptr() as *const libc::c_void, bytes.len(), libc::MSG_NOSIGNAL | libc::MSG_DONTWAIT),
                                    }
                                };
                                let sent: &[u8] = if op == "send" && n > 0 { &bytes[..n as usize] } else { &[] };
                                micro_http::verif::emit(json!({"h": "mid", "at": k, "op": op, "c": mc, "n": n, "bytes": obs::bytes(sent)}).to_string());
                            }
                            k += 1;
                        })));
                    }
                    let r = std::panic::catch_unwind(std::panic::AssertUnwindSafe(|| self.server.requests()));
                    if armed {
                        micro_http::verif::set_at_event(None);
                    }
                    let hk = hooks();
                    for h in hk.as_array().cloned().unwrap_or_default() {
                        if h["h"] == "mid" {
                            let mc = h["c"].as_u64().unwrap_or(0) as usize;
                            self.last_mid.push((h["op"].as_str().unwrap_or("").to_string(), mc));
                            if let Some(cl) = self.clients.get_mut(mc.wrapping_sub(1)) {
                                match h["op"].as_str().unwrap_or("") {
                                    "close" => { cl.sock = None; cl.raw = -1; }
                                    "shutwr" => cl.wr_shut = true,
                                    "shutrd" => cl.rd_shut = true,
                                    _ => {}
                                }
                            }
                        }
                    }
                    match r {
                        Err(_) => {
                            line["res"] = json!("panic");
                            line["hooks"] = hk.clone();
                            line["yielded"] = json!([]);
                        }
                        Ok(r) => {
                            line["hooks"] = hk.clone();
                            let mut yielded = vec![];
                            if let Ok(reqs) = &r {
                                for q in reqs {
                                    let uri = obs::uri_text(q.inner()).into_bytes();
                                    yielded.push(json!({"c": client_of_uri(&uri).unwrap_or(0), "tag": obs::bytes(&uri),
                                                        "body": obs::bytes(q.inner().body.as_ref().map_or(&[][..], |b| b.raw())),
                                                        "files": q.inner().files.iter().map(obs::file_tag).collect::<Vec<i64>>()}));
                                }
                            }
                            line["res"] = json!(srv_res(&r.as_ref().map(|_| vec![]).map_err(|e| clone_err(e))));
                            line["yielded"] = json!(yielded);
                            if let Ok(reqs) = r {
                                for q in reqs {
                                    let uri = obs::uri_text(q.inner()).into_bytes();
                                    self.held.push((client_of_uri(&uri).unwrap_or(0), uri, q));
                                }
                            }
                        }
                    }
                }
            }
            "poll_eintr" => {
                // requests() while nothing is ready: epoll_wait blocks and is interrupted by a signal
                // (a repeating 1 ms timer, so that a signal arriving before the wait is entered does
                // not leave the call blocked).  Expected: no event handled, the sweep runs, Ok(empty).
                if ready {
                    return false;
                }
                micro_http::verif::drain();
                arm_timer(true);
                let r = std::panic::catch_unwind(std::panic::AssertUnwindSafe(|| self.server.requests()));
                arm_timer(false);
                match r {
                    Err(_) => {
                        line["res"] = json!("panic");
                        line["hooks"] = hooks();
                        line["yielded"] = json!(0);
                    }
                    Ok(r) => {
                        line["hooks"] = hooks();
                        line["yielded"] = json!(r.as_ref().map(|v| v.len()).unwrap_or(0));
                        line["res"] = json!(srv_res(&r.as_ref().map(|_| vec![]).map_err(|e| clone_err(e))));
                        if let Ok(reqs) = r {
                            for q in reqs {
                                let uri = obs::uri_text(q.inner()).into_bytes();
                                self.held.push((client_of_uri(&uri).unwrap_or(0), uri, q));
                            }
                        }
                    }
                }
            }
            "fdcount" => {
                line["n"] = json!(self.server_fd_count());
            }
            _ => return false,
        }
        line["ready_after"] = json!(self.ready());
        writeln!(out, "{}", line).unwrap();
        // every step reaches the file at once: if a later call of the server never returns,
        // the history up to it can be recovered
        out.flush().unwrap();
        true
    }
}

extern "C" fn on_alarm(_: libc::c_int) {}

/// Arms (or disarms) a repeating 1 ms real-time timer whose SIGALRM handler does nothing and is
/// installed WITHOUT SA_RESTART: a blocking epoll_wait returns EINTR.
fn arm_timer(on: bool) {
    // SAFETY: plain sigaction/setitimer calls with zero-initialised, fully filled structures.
    unsafe {
        if on {
            let mut sa: libc::sigaction = std::mem::zeroed();
            sa.sa_sigaction = on_alarm as usize;
            sa.sa_flags = 0;
            libc::sigemptyset(&mut sa.sa_mask);
            libc::sigaction(libc::SIGALRM, &sa, std::ptr::null_mut());
        }
        let us = if on { 1000 } else { 0 };
        let tv = libc::itimerval {
            it_interval: libc::timeval { tv_sec: 0, tv_usec: us },
            it_value: libc::timeval { tv_sec: 0, tv_usec: us },
        };
        libc::setitimer(libc::ITIMER_REAL, &tv, std::ptr::null_mut());
    }
}

fn connect_unix(fd: i32, path: &str) -> i32 {
    // SAFETY: zeroed sockaddr_un filled with a NUL-terminated path shorter than sun_path.
    unsafe {
        let mut addr: libc::sockaddr_un = std::mem::zeroed();
        addr.sun_family = libc::AF_UNIX as libc::sa_family_t;
        for (i, b) in path.bytes().enumerate().take(addr.sun_path.len() - 1) {
            addr.sun_path[i] = b as libc::c_char;
        }
        libc::connect(fd, &addr as *const _ as *const libc::sockaddr, std::mem::size_of::<libc::sockaddr_un>() as u32)
    }
}

fn clone_err(e: &ServerError) -> String {
    format!("{:?}", e)
}

fn srv_res(r: &Result<Vec<()>, impl std::fmt::Debug>) -> String {
    match r {
        Ok(_) => "ok".to_string(),
        Err(e) => {
            let s = format!("{:?}", e);
            if s.contains("ShutdownEvent") {
                "shutdown".to_string()
            } else {
                format!("err:{}", s)
            }
        }
    }
}

fn hooks() -> Value {
    Value::Array(
        micro_http::verif::drain()
            .into_iter()
            .map(|s| serde_json::from_str::<Value>(&s).unwrap_or(json!({"h": "unparsable", "raw": s})))
            .collect(),
    )
}

impl Drop for Driver {
    fn drop(&mut self) {
        let _ = std::fs::remove_file(&self.path);
        for c in &self.clients {
            if c.sock.is_none() && c.raw >= 0 {
                // SAFETY: a socket we created and never wrapped.
                unsafe { libc::close(c.raw) };
            }
        }
    }
}
