//! Scripted in-memory stream: every receive and every write outcome is chosen by the
//! harness, and every call made by the code under test is counted.
use std::cell::RefCell;
use std::io::{self, Read, Write};
use std::os::unix::io::RawFd;
use std::rc::Rc;

use vmm_sys_util::errno;
use vmm_sys_util::sock_ctrl_msg::ScmSocket;

#[derive(Clone, Debug)]
pub enum ReadScript {
    /// deliver min(queued, window) bytes from the receive queue, with these descriptors
    /// (like a socket: what does not fit the window stays queued)
    Data(Vec<RawFd>),
    /// recvmsg returns 0 bytes, possibly with descriptors
    Eof(Vec<RawFd>),
    /// recvmsg fails with this errno
    Err(i32),
}

#[derive(Clone, Debug, PartialEq)]
pub enum WriteScript {
    /// accept min(k, offered) bytes
    Accept(usize),
    /// "accept j of r" of an abstract model (Gen_Write): all that is offered if j >= r, otherwise a
    /// short write that leaves at least r - j bytes (1 byte for j = 1, offered - (r - j) otherwise)
    AcceptAbs(usize, usize),
    Zero,
    Eintr,
    Eagain,
    Epipe,
}

#[derive(Default)]
pub struct StreamState {
    pub next_read: Option<ReadScript>,
    /// bytes the peer has sent and the connection has not received yet
    pub rxq: std::collections::VecDeque<u8>,
    /// bytes delivered by the last recv call
    pub last_delivered: Vec<u8>,
    pub next_write: Option<WriteScript>,
    pub recv_calls: usize,
    pub write_calls: usize,
    /// bytes accepted by the last write call
    pub last_sent: Vec<u8>,
    /// length offered by the last write call
    pub last_offered: usize,
    /// window size offered by the last recv call
    pub last_window: usize,
    /// a script asked for more bytes than the window offered (harness error)
    pub overrun: bool,
    /// a call arrived with no script installed
    pub unscripted: usize,
}

#[derive(Clone, Default)]
pub struct ScriptStream(pub Rc<RefCell<StreamState>>);

impl ScriptStream {
    pub fn new() -> Self {
        Self::default()
    }
}

impl Read for ScriptStream {
    fn read(&mut self, _buf: &mut [u8]) -> io::Result<usize> {
        // HttpConnection never calls Read::read (it uses recvmsg); count it as unscripted.
        self.0.borrow_mut().unscripted += 1;
        Err(io::Error::from(io::ErrorKind::WouldBlock))
    }
}

impl Write for ScriptStream {
    fn write(&mut self, buf: &[u8]) -> io::Result<usize> {
        let mut st = self.0.borrow_mut();
        st.write_calls += 1;
        st.last_offered = buf.len();
        st.last_sent.clear();
        let o = match st.next_write.take() {
            Some(o) => o,
            None => {
                st.unscripted += 1;
                WriteScript::Accept(usize::MAX)
            }
        };
        match o {
            WriteScript::Accept(k) => {
                let k = k.min(buf.len());
                st.last_sent.extend_from_slice(&buf[..k]);
                Ok(k)
            }
            WriteScript::AcceptAbs(j, r) => {
                let n = buf.len();
                let k = if j >= r || n <= r { n } else if j == 1 { 1 } else { n - (r - j) };
                st.last_sent.extend_from_slice(&buf[..k]);
                Ok(k)
            }
            WriteScript::Zero => Ok(0),
            WriteScript::Eintr => Err(io::Error::from(io::ErrorKind::Interrupted)),
            WriteScript::Eagain => Err(io::Error::from(io::ErrorKind::WouldBlock)),
            WriteScript::Epipe => Err(io::Error::from(io::ErrorKind::BrokenPipe)),
        }
    }
    fn flush(&mut self) -> io::Result<()> {
        Ok(())
    }
}

impl ScmSocket for ScriptStream {
    fn socket_fd(&self) -> RawFd {
        -1
    }

    unsafe fn recv_with_fds(
        &self,
        iovecs: &mut [libc::iovec],
        fds: &mut [RawFd],
    ) -> errno::Result<(usize, usize)> {
        let mut st = self.0.borrow_mut();
        st.recv_calls += 1;
        let window = iovecs.first().map_or(0, |v| v.iov_len);
        st.last_window = window;
        st.last_delivered.clear();
        let put_fds = |src: &[RawFd], dst: &mut [RawFd]| -> usize {
            let n = src.len().min(dst.len());
            dst[..n].copy_from_slice(&src[..n]);
            n
        };
        match st.next_read.take() {
            None => {
                st.unscripted += 1;
                Err(errno::Error::new(libc::EAGAIN))
            }
            Some(ReadScript::Err(e)) => Err(errno::Error::new(e)),
            Some(ReadScript::Eof(f)) => Ok((0, put_fds(&f, fds))),
            Some(ReadScript::Data(f)) => {
                let n = st.rxq.len().min(window);
                if n == 0 {
                    // nothing to deliver: a non-blocking socket says EAGAIN
                    st.next_read = Some(ReadScript::Data(f));
                    return Err(errno::Error::new(libc::EAGAIN));
                }
                let chunk: Vec<u8> = st.rxq.drain(..n).collect();
                // SAFETY: the caller hands us a valid writable iovec of `window` bytes.
                std::ptr::copy_nonoverlapping(chunk.as_ptr(), iovecs[0].iov_base as *mut u8, n);
                st.last_delivered = chunk;
                Ok((n, put_fds(&f, fds)))
            }
        }
    }
}
