pub mod connexec;
pub mod conngen;
pub mod gram;
pub mod fnexec;
pub mod fngen;
pub mod obs;
pub mod respbuild;
pub mod srvexec;
pub mod srvgen;
pub mod stream;

/// Receive-window size of the crate build this harness is linked against.
#[cfg(not(micro_http_verif_small))]
pub const BUF: usize = 1024;
#[cfg(micro_http_verif_small)]
pub const BUF: usize = 32;
#[cfg(not(micro_http_verif_small))]
pub const MAX_CONN: usize = 10;
#[cfg(micro_http_verif_small)]
pub const MAX_CONN: usize = 3;
