//! Case generators for the function-level checks.
use crate::gram::{self, Opts};
use crate::obs;
use rand::rngs::StdRng;
use rand::seq::SliceRandom;
use rand::{Rng, SeedableRng};
use serde_json::{json, Value};

pub struct Fx {
    pub rng: StdRng,
    pub out: Vec<Value>,
    pub thorough: bool,
}

impl Fx {
    pub fn new(seed: u64, thorough: bool) -> Self {
        Fx { rng: StdRng::seed_from_u64(seed), out: vec![], thorough }
    }
    fn push(&mut self, mut v: Value) {
        v["id"] = json!(self.out.len());
        self.out.push(v);
    }
}

/// all strings over `alpha` of length <= n
fn strings_upto(alpha: &[&[u8]], n: usize) -> Vec<Vec<u8>> {
    let mut out: Vec<Vec<u8>> = vec![vec![]];
    let mut layer: Vec<Vec<u8>> = vec![vec![]];
    for _ in 0..n {
        let mut next = vec![];
        for s in &layer {
            for a in alpha {
                let mut t = s.clone();
                t.extend(*a);
                next.push(t);
            }
        }
        out.extend(next.iter().cloned());
        layer = next;
    }
    out
}

fn single_edits(tok: &[u8]) -> Vec<Vec<u8>> {
    let subs: [u8; 14] = [0, b' ', b'\t', b'\r', b'\n', b'a', b'A', b'/', b'1', b'.', 0x80, 0xc3, b'x', b'T'];
    let mut out = vec![tok.to_vec()];
    for i in 0..tok.len() {
        let mut d = tok.to_vec();
        d.remove(i);
        out.push(d);
        let mut f = tok.to_vec();
        f[i] ^= 0x20;
        out.push(f);
        for s in subs {
            let mut t = tok.to_vec();
            t[i] = s;
            out.push(t);
        }
    }
    for i in 0..=tok.len() {
        for s in subs {
            let mut t = tok.to_vec();
            t.insert(i, s);
            out.push(t);
        }
    }
    out
}

// ---------------------------------------------------------------------------------------
// C16: tokens, status codes, URI paths
// ---------------------------------------------------------------------------------------
pub fn c16(fx: &mut Fx) {
    let n = if fx.thorough { 5 } else { 4 };
    let alpha: Vec<&[u8]> = vec![b"G", b"E", b"T", b"P", b"U", b"g", b" ", b"\0", b"\xc3"];
    for s in strings_upto(&alpha, n) {
        fx.push(json!({"e": "method", "bytes": obs::bytes(&s)}));
    }
    let alpha_v: Vec<&[u8]> = vec![b"H", b"T", b"P", b"/", b"1", b".", b"0", b"h", b" "];
    for s in strings_upto(&alpha_v, if fx.thorough { 5 } else { 4 }) {
        fx.push(json!({"e": "version", "bytes": obs::bytes(&s)}));
    }
    let alpha_m: Vec<&[u8]> = vec![b"t", b"e", b"x", b"/", b" ", b"\xc2\xa0", b"j", b"\0"];
    for s in strings_upto(&alpha_m, if fx.thorough { 5 } else { 4 }) {
        fx.push(json!({"e": "media", "bytes": obs::bytes(&s)}));
    }
    for tok in [&b"GET"[..], b"PUT", b"PATCH"] {
        for e in single_edits(tok) {
            fx.push(json!({"e": "method", "bytes": obs::bytes(&e)}));
        }
    }
    for tok in [&b"HTTP/1.0"[..], b"HTTP/1.1"] {
        for e in single_edits(tok) {
            fx.push(json!({"e": "version", "bytes": obs::bytes(&e)}));
        }
    }
    for tok in [&b"text/plain"[..], b"application/json", b" text/plain\t", "\u{2003}application/json\u{a0}".as_bytes()] {
        for e in single_edits(tok) {
            fx.push(json!({"e": "media", "bytes": obs::bytes(&e)}));
        }
    }
    for c in crate::respbuild::CODES {
        fx.push(json!({"e": "status", "code": c}));
    }
    // URIs (must be non-empty, without SP/CR/LF to get through the request line)
    let alpha_u: Vec<&[u8]> = vec![b"h", b"t", b"p", b":", b"/", b"a", b".", b"%", "\u{e9}".as_bytes()];
    for s in strings_upto(&alpha_u, if fx.thorough { 6 } else { 5 }) {
        if !s.is_empty() {
            fx.push(json!({"e": "abspath", "uri": obs::bytes(&s)}));
        }
    }
    for tail in strings_upto(&alpha_u, if fx.thorough { 4 } else { 3 }) {
        for pre in [&b"http://"[..], b"http:/", b"https://", b"HTTP://", b"Http://", b"hTTp://", b"/http://"] {
            let mut u = pre.to_vec();
            u.extend(&tail);
            fx.push(json!({"e": "abspath", "uri": obs::bytes(&u)}));
        }
    }
    // structured URIs: the scheme prefix repeated, and tails made of URI *pieces* (authority with userinfo /
    // port / IPv6 literal, path segments with reserved characters, a URL inside the path or the query)
    let pieces: Vec<&[u8]> = vec![b"http://", b"a", b"/", b"b@c", b"@", b"u:p@h", b":80", b"[::1]", b"//", b"?q=http://x/y", b"#f", b"/d", "\u{e9}".as_bytes()];
    for tail in strings_upto(&pieces, if fx.thorough { 4 } else { 3 }) {
        for pre in [&b"http://"[..], b"/", b""] {
            let mut u = pre.to_vec();
            u.extend(&tail);
            if !u.is_empty() {
                fx.push(json!({"e": "abspath", "uri": obs::bytes(&u)}));
            }
        }
    }
}

// ---------------------------------------------------------------------------------------
// C15: header lines and blocks
// ---------------------------------------------------------------------------------------
const NAMES: [&[u8]; 7] = [b"Content-Length", b"Content-Type", b"Expect", b"Transfer-Encoding", b"Server", b"Accept", b"Accept-Encoding"];

fn header_values(name: &[u8]) -> Vec<&'static [u8]> {
    match name {
        b"Content-Length" => vec![b"0", b"7", b"007", b"+5", b"4294967295", b"4294967296", b"-1", b"", b"1 2", b"abc", b"99999999999999999999"],
        b"Content-Type" | b"Accept" => vec![b"text/plain", b"application/json", b"image/png", b"", b"TEXT/PLAIN", b"text/plain; q=1"],
        b"Expect" => vec![b"100-continue", b"100-Continue", b"103-checkpoint", b""],
        b"Transfer-Encoding" => vec![b"chunked", b"identity", b"gzip", b"Chunked", b"chunked, identity", b""],
        b"Server" => vec![b"x", b"", b"a: b"],
        _ => vec![b"gzip", b"identity", b"identity;q=0", b"*;q=0", b"*;q=0, identity", b"identity;q=0.5, *;q=0", b"", b"gzip,identity;q=0",
                  b"deflate, *;q=0 ", b"identity; q=0", b"IDENTITY;q=0", b",", b" , identity;q=0"],
    }
}

fn rand_header_line(rng: &mut StdRng) -> Vec<u8> {
    let fancy = rng.gen_bool(0.55);
    match rng.gen_range(0..12) {
        0..=6 => {
            let name = *NAMES.choose(rng).unwrap();
            let vals = header_values(name);
            let v = gram::pick(rng, &vals);
            gram::header(rng, name, &v, fancy)
        }
        7 => {
            let v = gram::pick(rng, &[b"v1", b"v2", b"", b"a:b:c"]);
            gram::header(rng, b"X-Custom", &v, fancy)
        }
        8 => {
            let n = gram::pick(rng, &[b"x-custom", b"X-Other", "X-\u{e9}".as_bytes(), b""]);
            gram::header(rng, &n, b"w", fancy)
        }
        9 => gram::pick(rng, &[b"NoColon", b"", b" ", b"content-length 5"]),
        10 => gram::pick(rng, &[b"X: \xff", b"\xc3: v", b"Content-Length: \xe2\x82", b"Accept-Encoding: \xf0\x9f", b"X:\xed\xa0\x80"]),
        _ => gram::pick(rng, &[b"Content-Length: 5: 6", b"Expect:100-continue:", b"::", b"a:b\rc", b"a:b\nc"]),
    }
}

pub fn c15(fx: &mut Fx) {
    // every recognised name x every value x plain / upper / lower / padded
    for name in NAMES {
        for v in header_values(name) {
            for variant in 0..4 {
                let n: Vec<u8> = match variant {
                    0 => name.to_vec(),
                    1 => name.to_ascii_uppercase(),
                    2 => name.to_ascii_lowercase(),
                    _ => [b"\t ", name, "\u{2003}".as_bytes()].concat(),
                };
                let val: Vec<u8> = if variant == 3 { ["\u{a0} ".as_bytes(), v, b"\t"].concat() } else { v.to_vec() };
                let line = [n, b":".to_vec(), val].concat();
                fx.push(json!({"e": "hline", "lines": [obs::bytes(&line)]}));
                fx.push(json!({"e": "hblock", "bytes": obs::bytes(&line)}));
            }
        }
    }
    for v in header_values(b"Accept-Encoding") {
        fx.push(json!({"e": "enc", "bytes": obs::bytes(v)}));
    }
    for v in [&b"\xff"[..], b"gzip, \xc3", b" ", b"identity;q=0 ", b" identity;q=0", b"*;q=0,identity", b"*;q=0 , x"] {
        fx.push(json!({"e": "enc", "bytes": obs::bytes(v)}));
    }
    let n = if fx.thorough { 20000 } else { 2500 };
    for _ in 0..n {
        let k = fx.rng.gen_range(0..=6);
        let lines: Vec<Vec<u8>> = (0..k).map(|_| rand_header_line(&mut fx.rng)).collect();
        fx.push(json!({"e": "hline", "lines": lines.iter().map(|l| obs::bytes(l)).collect::<Vec<_>>()}));
        let mut block = lines.join(&b"\r\n"[..]);
        match fx.rng.gen_range(0..4) {
            0 => block.extend(b"\r\n"),
            1 => block.extend(b"\r\n\r\nContent-Length: 9"),
            _ => {}
        }
        fx.push(json!({"e": "hblock", "bytes": obs::bytes(&block)}));
    }
}

// ---------------------------------------------------------------------------------------
// C05: response builder
// ---------------------------------------------------------------------------------------
fn body_variants(rng: &mut StdRng, big: bool) -> Vec<u8> {
    match rng.gen_range(0..8) {
        0 => vec![],
        1 => b"\r\n\r\n".to_vec(),
        2 => b"HTTP/1.1 200 \r\nContent-Length: 5\r\n\r\nhello".to_vec(),
        3 => vec![0x80, 0xff, 0x00, b'\r'],
        4 if big => { let n = rng.gen_range(1000..65536); gram::rand_body(rng, n) }
        _ => { let n = rng.gen_range(1..40); gram::rand_body(rng, n) }
    }
}

fn rand_op(rng: &mut StdRng, big: bool) -> Value {
    match rng.gen_range(0..10) {
        0 | 1 => json!({"op": "body", "bytes": obs::bytes(&body_variants(rng, big))}),
        2 => json!({"op": "ctype", "m": if rng.gen_bool(0.5) { "text" } else { "json" }}),
        3 => json!({"op": "depr"}),
        4 => json!({"op": "enc"}),
        5 => json!({"op": "server", "s": obs::bytes(*[&b"X"[..], b"Mock Server/1.0", b""].choose(rng).unwrap())}),
        6 => { let k = rng.gen_range(0..4); json!({"op": "allow", "ms": (0..k).map(|_| *["GET", "PUT", "PATCH"].choose(rng).unwrap()).collect::<Vec<_>>()}) }
        7 => json!({"op": "allow1", "m": *["GET", "PUT", "PATCH"].choose(rng).unwrap()}),
        8 => json!({"op": "cl", "has": false, "n": 0}),
        _ => json!({"op": "cl", "has": true, "n": rng.gen_range(0..100)}),
    }
}

pub fn c05(fx: &mut Fx) {
    let fixed_ops: Vec<Value> = vec![
        json!({"op": "body", "bytes": []}), json!({"op": "body", "bytes": obs::bytes(b"ab")}), json!({"op": "body", "bytes": obs::bytes(b"\r\n\r\n")}),
        json!({"op": "ctype", "m": "text"}), json!({"op": "depr"}), json!({"op": "enc"}), json!({"op": "server", "s": obs::bytes(b"S")}),
        json!({"op": "allow", "ms": ["GET", "PUT"]}), json!({"op": "allow1", "m": "PATCH"}), json!({"op": "cl", "has": false, "n": 0}),
        json!({"op": "cl", "has": true, "n": 7}),
    ];
    // enumerated: every version x code x every sequence of <= 2 (thorough: 3) builder calls
    let depth = if fx.thorough { 3 } else { 2 };
    let mut seqs: Vec<Vec<Value>> = vec![vec![]];
    let mut layer: Vec<Vec<Value>> = vec![vec![]];
    for _ in 0..depth {
        let mut next = vec![];
        for s in &layer {
            for o in &fixed_ops {
                let mut t = s.clone();
                t.push(o.clone());
                next.push(t);
            }
        }
        seqs.extend(next.iter().cloned());
        layer = next;
    }
    for v in ["1.0", "1.1"] {
        for code in crate::respbuild::CODES {
            for s in &seqs {
                fx.push(json!({"e": "resp", "resp": {"v": v, "code": code, "ops": s}, "sink": []}));
            }
        }
    }
    // body lengths around powers of two and around 51200 (the crate's request payload limit)
    for len in [1023usize, 1024, 1025, 32767, 32768, 51199, 51200, 51201, 65535, 65536] {
        for code in [200u64, 204, 400] {
            let body: Vec<u8> = (0..len).map(|i| b'a' + (i % 26) as u8).collect();
            fx.push(json!({"e": "resp", "resp": {"v": "1.1", "code": code, "ops": [{"op": "body", "bytes": obs::bytes(&body)}]}, "sink": [4096]}));
        }
    }
    // random: up to 8 calls, bodies up to 64 KiB, sinks accepting 1..n bytes per write
    let n = if fx.thorough { 6000 } else { 600 };
    for i in 0..n {
        let k = fx.rng.gen_range(0..=8);
        let ops: Vec<Value> = (0..k).map(|_| rand_op(&mut fx.rng, i % 10 == 0)).collect();
        let sink: Vec<usize> = match fx.rng.gen_range(0..4) {
            0 => vec![],
            1 => vec![1],
            2 => vec![fx.rng.gen_range(1..8), fx.rng.gen_range(1..64)],
            _ => (0..5).map(|_| fx.rng.gen_range(1..500)).collect(),
        };
        let code = *crate::respbuild::CODES.choose(&mut fx.rng).unwrap();
        let v = if fx.rng.gen_bool(0.5) { "1.0" } else { "1.1" };
        fx.push(json!({"e": "resp", "resp": {"v": v, "code": code, "ops": ops}, "sink": sink}));
    }
}

// ---------------------------------------------------------------------------------------
// C14: one-shot parser vs connection
// ---------------------------------------------------------------------------------------
pub fn c14(fx: &mut Fx) {
    // large requests: a header line straddling the first window edge, a body of several windows
    for _ in 0..(if fx.thorough { 300 } else { 40 }) {
        let mut r = gram::valid(&mut fx.rng, &Opts { max_body: 0, ..Opts::default() });
        r.method = b"PUT".to_vec();
        let fill = fx.rng.gen_range(900..1100usize);
        r.headers.insert(0, [b"X-Fill: ".to_vec(), vec![b'f'; fill]].concat());
        let blen = fx.rng.gen_range(1..3000usize);
        r.body = gram::rand_body(&mut fx.rng, blen);
        r.headers.retain(|h| !h.to_ascii_lowercase().starts_with(b"content-length") && !String::from_utf8_lossy(h).to_lowercase().contains("content-length"));
        r.headers.push(format!("Content-Length: {}", blen).into_bytes());
        let b = r.bytes();
        let kc = fx.rng.gen_range(0..4);
        let cuts = gram::random_cuts(&mut fx.rng, b.len(), kc);
        fx.push(json!({"e": "oneshot", "bytes": obs::bytes(&b), "max": -1, "limit": obs::digits(51200), "cuts": cuts}));
    }
    for blen in [1usize, 9, 10, 11, 16, 51199, 51200, 51201] {
        for limit in [blen as u128, blen as u128 + 1, (blen as u128).saturating_sub(1), 51200] {
            let body = gram::rand_body(&mut fx.rng, blen);
            let r = gram::Req { method: b"PUT".to_vec(), uri: b"/lim".to_vec(), version: b"HTTP/1.1".to_vec(),
                                headers: vec![format!("Content-Length: {}", blen).into_bytes()], body };
            let b = r.bytes();
            let cuts = gram::random_cuts(&mut fx.rng, b.len(), 2);
            fx.push(json!({"e": "oneshot", "bytes": obs::bytes(&b), "max": -1, "limit": obs::digits(limit), "cuts": cuts}));
        }
    }
    let n = if fx.thorough { 4000 } else { 400 };
    let o = Opts { max_body: 30, ..Opts::default() };
    for i in 0..n {
        let r = gram::valid(&mut fx.rng, &o);
        let mut cases: Vec<Vec<u8>> = vec![r.bytes()];
        let cs = gram::corruptions(&r);
        if i % 5 == 0 {
            cases.extend(cs.into_iter().map(|c| c.1));
        } else {
            for _ in 0..4 {
                cases.push(cs[fx.rng.gen_range(0..cs.len())].1.clone());
            }
        }
        for mut b in cases {
            match fx.rng.gen_range(0..6) {
                0 => b.extend(b"TRAIL"),
                1 => b.extend(gram::valid(&mut fx.rng, &o).bytes()),
                2 => b.extend(b"\r\n"),
                _ => {}
            }
            let len = b.len() as i64;
            let max: i64 = *[-1i64, -1, -1, len, len + 1, len - 1, 2000, 0].choose(&mut fx.rng).unwrap();
            let limit: u128 = if fx.rng.gen_bool(0.1) { 10 } else { 51200 };
            // the connection receives the slice in segments (the one-shot parser sees it whole)
            let kc = *[0usize, 0, 1, 2, 3].choose(&mut fx.rng).unwrap();
            let cuts = gram::random_cuts(&mut fx.rng, b.len(), kc);
            fx.push(json!({"e": "oneshot", "bytes": obs::bytes(&b), "max": max, "limit": obs::digits(limit), "cuts": cuts}));
        }
    }
}

// ---------------------------------------------------------------------------------------
// C17: router
// ---------------------------------------------------------------------------------------
pub fn c17(fx: &mut Fx) {
    // origin-form paths that merely CONTAIN a scheme separator or a second slash are ordinary paths
    let paths: [&[u8]; 14] = [b"", b"/", b"/a", b"/a/b", b"/a:b", b"a", b"/a/", b"/b", b"/a://b/b", b"/a://b", b"/x://a", b"//b", b"/http://h/a", b"/b?x=http://h/a"];
    let prefixes: [&[u8]; 4] = [b"", b"/api", b"/a", b"/api/v1"];
    let methods = ["GET", "PUT", "PATCH"];
    let n = if fx.thorough { 5000 } else { 500 };
    for _ in 0..n {
        let prefix = *prefixes.choose(&mut fx.rng).unwrap();
        let k = fx.rng.gen_range(0..=5);
        let routes: Vec<Value> = (0..k)
            .map(|_| json!({"m": *methods.choose(&mut fx.rng).unwrap(), "path": obs::bytes(*paths.choose(&mut fx.rng).unwrap()),
                            "code": *[200u64, 204, 404, 500].choose(&mut fx.rng).unwrap(),
                            "ctype": *["json", "json", "text"].choose(&mut fx.rng).unwrap(),
                            "server": *["", "", "handler-own-id"].choose(&mut fx.rng).unwrap()}))
            .collect();
        let mut requests = vec![];
        for _ in 0..8 {
            let mut uri: Vec<u8> = match fx.rng.gen_range(0..7) {
                0 | 1 | 2 => vec![],
                3 => b"http://localhost".to_vec(),
                4 => b"http://h:80".to_vec(),
                5 => b"https://h".to_vec(),
                _ => b"http:/".to_vec(),
            };
            if fx.rng.gen_bool(0.8) {
                uri.extend(prefix);
            }
            uri.extend(*paths.choose(&mut fx.rng).unwrap());
            if uri.is_empty() {
                uri = b"*".to_vec();
            }
            requests.push(json!({"m": *methods.choose(&mut fx.rng).unwrap(), "uri": obs::bytes(&uri)}));
        }
        let sid = gram::pick(&mut fx.rng, &[b"Mock_Server", b"", b"srv/2"]);
        fx.push(json!({"e": "router", "server_id": obs::bytes(&sid),
                       "prefix": obs::bytes(prefix), "routes": routes, "requests": requests}));
    }
}

// ---------------------------------------------------------------------------------------
// C03 (function level): arbitrary bytes into every public parsing entry point
// ---------------------------------------------------------------------------------------
pub fn c03fn(fx: &mut Fx) {
    // URI path extraction on every UTF-8 shape of authority and path (scheme prefixes x tails)
    let alpha_u: Vec<&[u8]> = vec![b"h", b":", b"/", b"a", b"%", "\u{e9}".as_bytes(), "\u{20ac}".as_bytes(), "\u{1f600}".as_bytes()];
    for tail in strings_upto(&alpha_u, if fx.thorough { 5 } else { 4 }) {
        for pre in [&b"http://"[..], b"/", b"http:/"] {
            let mut u = pre.to_vec();
            u.extend(&tail);
            fx.push(json!({"e": "abspath", "uri": obs::bytes(&u)}));
        }
    }
    let n = if fx.thorough { 20000 } else { 2000 };
    let o = Opts::default();
    for i in 0..n {
        let mut b: Vec<u8> = match i % 4 {
            0 => { let len = fx.rng.gen_range(0..200); (0..len).map(|_| fx.rng.gen()).collect() }
            1 => gram::valid(&mut fx.rng, &o).bytes(),
            2 => { let r = gram::valid(&mut fx.rng, &o); let cs = gram::corruptions(&r); cs[fx.rng.gen_range(0..cs.len())].1.clone() }
            _ => rand_header_line(&mut fx.rng),
        };
        for _ in 0..fx.rng.gen_range(0..4) {
            if b.is_empty() { break; }
            let j = fx.rng.gen_range(0..b.len());
            match fx.rng.gen_range(0..5) {
                0 => b[j] = *[0u8, b'\r', b'\n', 0x80, 0xff, b' ', b':'].choose(&mut fx.rng).unwrap(),
                1 => { b.truncate(j); }
                2 => { b.insert(j, *[0u8, b'\r', b'\n', 0xc3, b':'].choose(&mut fx.rng).unwrap()); }
                3 => { let d = b[j..].to_vec(); b.extend(d); }
                _ => { b[j] ^= 1 << fx.rng.gen_range(0..8); }
            }
        }
        if i % 50 == 0 {
            let len = fx.rng.gen_range(1000..60000);
            b.extend((0..len).map(|k| b'a' + (k % 26) as u8));
        }
        let bytes = obs::bytes(&b);
        let len = b.len() as i64;
        let mx = *[-1i64, len, len + 1].choose(&mut fx.rng).unwrap();
        fx.push(json!({"e": "oneshot", "bytes": bytes, "max": mx, "limit": obs::digits(51200)}));
        fx.push(json!({"e": "hblock", "bytes": bytes}));
        fx.push(json!({"e": "hline", "lines": [bytes]}));
        fx.push(json!({"e": "enc", "bytes": bytes}));
        fx.push(json!({"e": "media", "bytes": bytes}));
        fx.push(json!({"e": "method", "bytes": bytes}));
        fx.push(json!({"e": "version", "bytes": bytes}));
        if !b.iter().any(|c| *c == b' ' || *c == b'\r' || *c == b'\n') && !b.is_empty() {
            fx.push(json!({"e": "abspath", "uri": bytes}));
        }
    }
}

pub fn generate(prop: &str, fx: &mut Fx) -> bool {
    match prop {
        "C05" => c05(fx),
        "C14" => c14(fx),
        "C15" => c15(fx),
        "C16" => c16(fx),
        "C17" => c17(fx),
        "C03" => c03fn(fx),
        _ => return false,
    }
    true
}
