//! Executes connection-level scripts against the real `HttpConnection` over the scripted
//! stream and emits one trace event per public call, after it returned.
//!
//! Script (one JSON object per run):
//!   {"run":id,"fam":f,"cmp":[..],"limit":[digits],"ev":[ ... ]}
//! script events:
//!   {"e":"read","kind":"data","bytes":[..],"fds":[tags]} | kind "eof" (fds) | kind "err" (errno)
//!   {"e":"enq","resp":{...builder...}}      enqueue a response built by `respbuild`
//!   {"e":"write","o":{"k":"accept","n":k}|{"k":"zero"}|{"k":"eintr"}|{"k":"eagain"}|{"k":"epipe"}}
//!   {"e":"clear"}                            clear_write_buffer
//!   {"e":"setlimit","limit":[digits]}        set_payload_max_size on the live connection
//!   {"e":"drain"}                            try_write with accept-all until nothing is pending
//!   {"e":"drop"}                             drop popped requests and the connection
use crate::obs;
use crate::respbuild;
use crate::stream::{ReadScript, ScriptStream, WriteScript};
use micro_http::HttpConnection;
use serde_json::{json, Value};
use std::io::Write;
use std::os::unix::io::{IntoRawFd, RawFd};
use std::panic::{catch_unwind, AssertUnwindSafe};

/// Directory holding one small file per descriptor tag.
pub struct TagFiles {
    dir: std::path::PathBuf,
}

impl TagFiles {
    pub fn new(dir: &str) -> Self {
        std::fs::create_dir_all(dir).ok();
        Self { dir: dir.into() }
    }
    /// A fresh descriptor whose content is the tag.
    pub fn open(&self, tag: i64) -> RawFd {
        let p = self.dir.join(format!("t{}", tag));
        if !p.exists() {
            std::fs::write(&p, format!("{}", tag)).unwrap();
        }
        std::fs::File::open(&p).unwrap().into_raw_fd()
    }
}

pub fn open_fd_count() -> usize {
    std::fs::read_dir("/proc/self/fd").map(|d| d.count()).unwrap_or(0)
}

fn write_script(o: &Value) -> WriteScript {
    match o["k"].as_str().unwrap_or("") {
        "accept" => WriteScript::Accept(o["n"].as_u64().unwrap_or(0) as usize),
        "acceptabs" => WriteScript::AcceptAbs(o["j"].as_u64().unwrap_or(1) as usize, o["r"].as_u64().unwrap_or(1) as usize),
        "zero" => WriteScript::Zero,
        "eintr" => WriteScript::Eintr,
        "eagain" => WriteScript::Eagain,
        _ => WriteScript::Epipe,
    }
}

fn digest(c: &HttpConnection<ScriptStream>) -> Value {
    let d = c.verif_digest();
    json!({"phase": d.phase, "cursor": d.read_cursor, "missing": d.body_missing, "held": d.body_held,
           "parsed": d.parsed, "queued": d.queued, "unsent": d.unsent, "files": d.files, "pending": d.pending})
}


/// One try_write with the scripted outcome; logs it.  Returns false on panic.
fn one_write(conn: &mut HttpConnection<ScriptStream>, stream: &ScriptStream, o: &Value, out: &mut dyn Write) -> bool {
    {
        let mut st = stream.0.borrow_mut();
        st.next_write = Some(write_script(o));
        st.write_calls = 0;
        st.recv_calls = 0;
        st.last_sent.clear();
        st.last_offered = 0;
    }
    let r = catch_unwind(AssertUnwindSafe(|| conn.try_write()));
    let (res, panicked) = match &r {
        Ok(r) => (obs::conn_result(r), false),
        Err(_) => (obs::panic_result(), true),
    };
    let mut st = stream.0.borrow_mut();
    st.next_write = None;
    // what the stream really did (an accept larger than offered is clipped)
    let eff = if (o["k"] == "accept" || o["k"] == "acceptabs") && st.write_calls > 0 {
        json!({"k": "accept", "n": st.last_sent.len()})
    } else {
        o.clone()
    };
    let line = json!({"e": "write", "o": eff, "res": res, "calls": st.write_calls, "recvs": st.recv_calls,
                      "offered": st.last_offered, "sent": obs::bytes(&st.last_sent),
                      "pending": if panicked { json!(false) } else { json!(conn.pending_write()) }});
    drop(st);
    writeln!(out, "{}", line).unwrap();
    !panicked
}

/// try_write with accept-all until nothing is pending (bounded).
fn drain(conn: &mut HttpConnection<ScriptStream>, stream: &ScriptStream, out: &mut dyn Write) -> bool {
    let mut guard = 0;
    while conn.pending_write() && guard < 10_000 {
        if !one_write(conn, stream, &json!({"k": "accept", "n": 1 << 30}), out) {
            return false;
        }
        guard += 1;
    }
    true
}

/// The same script format executed over a REAL socket pair (SCM_RIGHTS through the kernel and
/// vmm-sys-util's recvmsg wrapper).  Each data read is one sendmsg of a small chunk (it fits the
/// window, so one receive takes it whole) followed by one try_read; descriptors travel as
/// ancillary data of that message.  Only reads are supported (used by C12).
pub fn run_script_real(script: &Value, tags: &TagFiles, out: &mut dyn Write) -> bool {
    use std::os::unix::net::UnixStream;
    use vmm_sys_util::sock_ctrl_msg::ScmSocket;
    let limit = obs::from_digits(&script["limit"]) as usize;
    let fd_base = open_fd_count();
    let (client, server) = UnixStream::pair().unwrap();
    server.set_nonblocking(true).unwrap();
    let mut conn = HttpConnection::new(server);
    conn.set_payload_max_size(limit);
    let keep = script["keep"].as_bool().unwrap_or(false);
    let mut held: Vec<micro_http::Request> = Vec::new();
    let mut client = Some(client);
    writeln!(out, "{}", json!({"e": "new", "run": script["run"], "fam": script["fam"], "cmp": script["cmp"],
                               "limit": script["limit"], "buf": crate::BUF, "note": script["note"]})).unwrap();
    let empty = vec![];
    let mut ok = true;
    for ev in script["ev"].as_array().unwrap_or(&empty) {
        if ev["e"] != "read" {
            continue;
        }
        let rk = ev["kind"].as_str().unwrap_or("data");
        let fds: Vec<RawFd> = ev["fds"].as_array().map(|a| a.iter().map(|t| tags.open(t.as_i64().unwrap())).collect()).unwrap_or_default();
        let bytes = obs::from_bytes(&ev["bytes"]);
        let mut sent_fds = ev["fds"].clone();
        match rk {
            "data" => {
                if let Some(c) = client.as_ref() {
                    let r = if fds.is_empty() { c.send_with_fds(&[&bytes[..]], &[]) } else { c.send_with_fds(&[&bytes[..]], &fds) };
                    if r.is_err() {
                        sent_fds = json!([]);
                    }
                }
            }
            "eof" => {
                // descriptors cannot travel with an end-of-stream on a stream socket: just close
                client = None;
                sent_fds = json!([]);
            }
            _ => {}
        }
        // our copies of the descriptors are closed: the receiver owns its own duplicates
        for fd in fds {
            // SAFETY: descriptors opened by TagFiles::open and owned here.
            unsafe { libc::close(fd) };
        }
        let r = catch_unwind(AssertUnwindSafe(|| conn.try_read()));
        let (res, panicked) = match &r {
            Ok(r) => (obs::conn_result(r), false),
            Err(_) => (obs::panic_result(), true),
        };
        let mut popped = vec![];
        if !panicked {
            while let Some(rq) = conn.pop_parsed_request() {
                popped.push(obs::request(&rq));
                if keep {
                    held.push(rq);
                }
            }
        }
        let lk = if rk == "data" { "data" } else if rk == "eof" { "eof" } else { "err" };
        writeln!(out, "{}", json!({"e": "read", "kind": lk, "bytes": if rk == "data" { ev["bytes"].clone() } else { json!([]) },
                                   "fds": if sent_fds.is_array() { sent_fds } else { json!([]) },
                                   "res": res, "recvs": 1, "writes": 0, "window": crate::BUF, "popped": popped,
                                   "pending": if panicked { json!(false) } else { json!(conn.pending_write()) },
                                   "digest": {"none": true}})).unwrap();
        if panicked {
            ok = false;
            break;
        }
    }
    drop(held);
    drop(conn);
    drop(client);
    let fd_after = open_fd_count();
    writeln!(out, "{}", json!({"e": "end", "run": script["run"], "fam": script["fam"], "aborted": !ok, "stopped": false,
                               "unscripted": 0, "fd_delta": fd_after as i64 - fd_base as i64})).unwrap();
    ok
}

fn first_iter_flag(line: &Value) -> bool {
    // the read event that carried the script's descriptors is the first one of its loop
    line["fds"].as_array().map_or(false, |a| !a.is_empty()) || line["first"].as_bool().unwrap_or(false)
}

/// try_write with accept-all until nothing is pending, without logging; returns the bytes written
fn drain_silent(conn: &mut HttpConnection<ScriptStream>, stream: &ScriptStream) -> Vec<u8> {
    let mut all = vec![];
    let mut guard = 0;
    while conn.pending_write() && guard < 10_000 {
        stream.0.borrow_mut().next_write = Some(WriteScript::Accept(usize::MAX));
        if catch_unwind(AssertUnwindSafe(|| conn.try_write())).is_err() {
            break;
        }
        all.extend(stream.0.borrow().last_sent.iter());
        guard += 1;
    }
    all
}

/// Runs one script; writes trace events to `out`.  Returns false if the run panicked.
pub fn run_script(script: &Value, tags: &TagFiles, out: &mut dyn Write) -> bool {
    if script["real_socket"].as_bool().unwrap_or(false) {
        return run_script_real(script, tags, out);
    }
    let stream = ScriptStream::new();
    let limit = obs::from_digits(&script["limit"]) as usize;
    let fd_base = open_fd_count();
    let mut conn = HttpConnection::new(stream.clone());
    conn.set_payload_max_size(limit);
    let mut held_requests: Vec<micro_http::Request> = Vec::new();
    let keep = script["keep"].as_bool().unwrap_or(false);
    let stop_on_error = script["stop_on_error"].as_bool().unwrap_or(false);
    let mut stopped = false;
    // C11 (relational): after the first ParseError a NEW connection is fed, in lockstep, exactly the
    // bytes / descriptors / empty reads the old one receives from then on; both are drained after
    // every read and their observations are logged side by side.
    let c11_fresh = script["c11_fresh"].as_bool().unwrap_or(false);
    let mut fresh: Option<(HttpConnection<ScriptStream>, ScriptStream)> = None;
    // C11 (relational): the limit in force now (set_payload_max_size may be called mid-stream), every chunk
    // delivered so far and every byte the connection has written so far
    let mut cur_limit = limit;
    let mut delivered_chunks: Vec<Vec<u8>> = vec![];
    let mut main_out_total: Vec<u8> = vec![];
    let mut main_popped_total = 0usize;
    let mut delivered_total = 0usize;
    let a_end = script["a_end"].as_u64().map(|v| v as usize);
    let rej_at = script["rej_at"].as_u64().map(|v| v as usize);
    let drain_after_read = script["drain_after_read"].as_bool().unwrap_or(false);
    // completed requests stay queued in the connection until the end of the script (a caller that does
    // not pop after every read); they are popped and logged by one `popall` event before the drop
    let defer_pop = script["defer_pop"].as_bool().unwrap_or(false);
    let mut line = json!({"e": "new", "run": script["run"], "fam": script["fam"], "cmp": script["cmp"],
                          "limit": script["limit"], "buf": crate::BUF, "note": script["note"]});
    writeln!(out, "{}", line).unwrap();
    let empty = vec![];
    let mut ok = true;
    for ev in script["ev"].as_array().unwrap_or(&empty) {
        let kind = ev["e"].as_str().unwrap_or("");
        match kind {
            "read" => {
                let rk = ev["kind"].as_str().unwrap_or("data");
                let mut fds: Vec<RawFd> = ev["fds"]
                    .as_array()
                    .map(|a| a.iter().map(|t| tags.open(t.as_i64().unwrap())).collect())
                    .unwrap_or_default();
                let mut fd_tags = ev["fds"].clone();
                if rk == "data" {
                    stream.0.borrow_mut().rxq.extend(obs::from_bytes(&ev["bytes"]));
                }
                let auto = ev["auto"].as_bool().unwrap_or(true);
                let mut first = true;
                let tags_of_read: Vec<i64> = ev["fds"].as_array().map(|a| a.iter().filter_map(|t| t.as_i64()).collect()).unwrap_or_default();
                loop {
                    let rs = match rk {
                        "data" | "more" => ReadScript::Data(std::mem::take(&mut fds)),
                        "eof" => ReadScript::Eof(std::mem::take(&mut fds)),
                        _ => ReadScript::Err(ev["errno"].as_i64().unwrap_or(libc::EAGAIN as i64) as i32),
                    };
                    {
                        let mut st = stream.0.borrow_mut();
                        st.next_read = Some(rs);
                        st.recv_calls = 0;
                        st.write_calls = 0;
                        st.last_delivered.clear();
                    }
                    let r = catch_unwind(AssertUnwindSafe(|| conn.try_read()));
                    let (res, panicked) = match &r {
                        Ok(r) => (obs::conn_result(r), false),
                        Err(_) => (obs::panic_result(), true),
                    };
                    let mut popped = vec![];
                    if !panicked && !defer_pop {
                        while let Some(rq) = conn.pop_parsed_request() {
                            popped.push(obs::request(&rq));
                            if keep {
                                held_requests.push(rq);
                            }
                        }
                    }
                    let mut st = stream.0.borrow_mut();
                    st.next_read = None;
                    let delivered = st.last_delivered.clone();
                    if !delivered.is_empty() {
                        delivered_chunks.push(delivered.clone());
                        delivered_total += delivered.len();
                    }
                    main_popped_total += popped.len();
                    let lk = if !delivered.is_empty() { "data" } else if rk == "eof" { "eof" } else { "err" };
                    line = json!({"e": "read", "kind": lk, "bytes": obs::bytes(&delivered),
                                  "fds": if first && fd_tags.is_array() { fd_tags.take() } else { json!([]) },
                                  "res": res, "recvs": st.recv_calls, "writes": st.write_calls,
                                  "window": st.last_window, "popped": popped, "first": first, "pop": !defer_pop,
                                  "pending": if panicked { json!(false) } else { json!(conn.pending_write()) },
                                  "digest": if panicked { json!({"none": true}) } else { digest(&conn) }});
                    let more = !st.rxq.is_empty();
                    drop(st);
                    writeln!(out, "{}", line).unwrap();
                    first = false;
                    if panicked {
                        ok = false;
                        break;
                    }
                    let was_first = first_iter_flag(&line);
                    let before = stream.0.borrow().write_calls;
                    let _ = before;
                    let mut main_drained: Vec<u8> = vec![];
                    if drain_after_read {
                        // log the writes as usual and remember what was written
                        let mark = conn.pending_write();
                        if mark {
                            let mut guard = 0;
                            while conn.pending_write() && guard < 10_000 {
                                if !one_write(&mut conn, &stream, &json!({"k": "accept", "n": 1 << 30}), out) {
                                    ok = false;
                                    break;
                                }
                                main_drained.extend(stream.0.borrow().last_sent.iter());
                                main_out_total.extend(stream.0.borrow().last_sent.iter());
                                guard += 1;
                            }
                            if !ok {
                                break;
                            }
                        }
                    }
                    if c11_fresh {
                        if let Some((fc, fs)) = fresh.as_mut() {
                            let ftags: Vec<RawFd> = if was_first { tags_of_read.iter().map(|t| tags.open(*t)).collect() } else { vec![] };
                            let frs = match lk {
                                "data" => {
                                    fs.0.borrow_mut().rxq.extend(delivered.iter());
                                    ReadScript::Data(ftags)
                                }
                                "eof" => ReadScript::Eof(ftags),
                                _ => ReadScript::Err(libc::EAGAIN),
                            };
                            fs.0.borrow_mut().next_read = Some(frs);
                            let fr = catch_unwind(AssertUnwindSafe(|| fc.try_read()));
                            let fres = match &fr {
                                Ok(r) => obs::conn_result(r),
                                Err(_) => obs::panic_result(),
                            };
                            let mut fpopped = vec![];
                            if fr.is_ok() {
                                while let Some(rq) = fc.pop_parsed_request() {
                                    fpopped.push(obs::request(&rq));
                                }
                            }
                            let fdr = if drain_after_read { drain_silent(fc, fs) } else { vec![] };
                            let cmp = json!({"e": "c11cmp",
                                "main": {"res": line["res"], "popped": line["popped"], "drained": obs::bytes(&main_drained), "pending": conn.pending_write()},
                                "fresh": {"res": fres, "popped": fpopped, "drained": obs::bytes(&fdr), "pending": fc.pending_write()}});
                            writeln!(out, "{}", cmp).unwrap();
                        } else if line["res"]["k"] == "ParseError" {
                            let fs = ScriptStream::new();
                            let mut fc = HttpConnection::new(fs.clone());
                            fc.set_payload_max_size(cur_limit);
                            fresh = Some((fc, fs));
                            // "no part of the rejected input is retained", output included: a reference connection
                            // is fed the same chunks cut off where the rejected request starts; everything the
                            // connection under test has written so far must be what the reference writes
                            if let (Some(at), true) = (rej_at, drain_after_read) {
                                let rs = ScriptStream::new();
                                let mut rc = HttpConnection::new(rs.clone());
                                rc.set_payload_max_size(limit);
                                let mut left = at;
                                let mut ref_out: Vec<u8> = vec![];
                                let mut ref_popped = 0usize;
                                for ch in delivered_chunks.iter() {
                                    if left == 0 {
                                        break;
                                    }
                                    let k = ch.len().min(left);
                                    left -= k;
                                    rs.0.borrow_mut().rxq.extend(ch[..k].iter());
                                    rs.0.borrow_mut().next_read = Some(ReadScript::Data(vec![]));
                                    let _ = catch_unwind(AssertUnwindSafe(|| rc.try_read()));
                                    while rc.pop_parsed_request().is_some() {
                                        ref_popped += 1;
                                    }
                                    ref_out.extend(drain_silent(&mut rc, &rs));
                                }
                                // judged only if the error was raised by the bytes of the request meant to be rejected and
                                // no complete request was carved out of them (some corruptions leave [valid request][garbage])
                                if a_end.map_or(false, |e| delivered_total <= e) && ref_popped == main_popped_total {
                                    writeln!(out, "{}", json!({"e": "c11out", "main": obs::bytes(&main_out_total), "ref": obs::bytes(&ref_out)})).unwrap();
                                }
                            }
                        }
                    }
                    let is_ok = line["res"]["k"] == "Ok";
                    if !is_ok && stop_on_error && lk == "data" {
                        stopped = true;
                        break;
                    }
                    if !(auto && more && (rk == "data" || rk == "more")) {
                        break;
                    }
                }
                if !ok || stopped {
                    break;
                }
            }
            "enq" => {
                let resp = respbuild::build(&ev["resp"]);
                let mut ser = Vec::new();
                resp.write_all(&mut ser).unwrap();
                conn.enqueue_response(resp);
                line = json!({"e": "enq", "ser": obs::bytes(&ser), "pending": conn.pending_write()});
                writeln!(out, "{}", line).unwrap();
            }
            "setlimit" => {
                // set_payload_max_size on a live connection (public)
                cur_limit = obs::from_digits(&ev["limit"]) as usize;
                if let Some((fc, _)) = fresh.as_mut() {
                    fc.set_payload_max_size(cur_limit);
                }
                conn.set_payload_max_size(obs::from_digits(&ev["limit"]) as usize);
                line = json!({"e": "setlimit", "limit": ev["limit"]});
                writeln!(out, "{}", line).unwrap();
            }
            "clear" => {
                // clear_write_buffer is public (the server calls it on a hang-up)
                conn.clear_write_buffer();
                line = json!({"e": "clear", "pending": conn.pending_write()});
                writeln!(out, "{}", line).unwrap();
            }
            "write" | "drain" => {
                if kind == "write" {
                    if !one_write(&mut conn, &stream, &ev["o"], out) {
                        ok = false;
                        break;
                    }
                } else if !drain(&mut conn, &stream, out) {
                    ok = false;
                    break;
                }
            }
            _ => {}
        }
    }
    if defer_pop && ok {
        let mut popped = vec![];
        while let Some(rq) = conn.pop_parsed_request() {
            popped.push(obs::request(&rq));
            if keep {
                held_requests.push(rq);
            }
        }
        writeln!(out, "{}", json!({"e": "popall", "popped": popped})).unwrap();
    }
    let unscripted = stream.0.borrow().unscripted;
    drop(held_requests);
    drop(conn);
    drop(fresh);
    let fd_after = open_fd_count();
    line = json!({"e": "end", "run": script["run"], "fam": script["fam"], "aborted": !ok, "stopped": stopped,
                  "unscripted": unscripted, "fd_delta": fd_after as i64 - fd_base as i64});
    writeln!(out, "{}", line).unwrap();
    ok
}
