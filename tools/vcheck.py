"""Core of ./check: builds the harness against /repo, runs the TLC model checks,
records traces from the real code, validates them with TLC, writes evidence."""
import hashlib, json, os, re, shutil, subprocess, sys, time, glob
from concurrent.futures import ThreadPoolExecutor

VERIF = os.path.dirname(os.path.dirname(os.path.abspath(__file__)))
SPEC = os.path.join(VERIF, "spec")
# The registered commands use the defaults; the overrides exist so that seeded changes can be
# evaluated in scratch worktrees (tools/seed_matrix.py) without touching /repo or the evidence.
WORK = os.environ.get("VERIF_WORK", os.path.join(VERIF, "work"))
REPLAY = os.environ.get("VERIF_REPLAY", os.path.join(VERIF, "replay"))
EVID = os.environ.get("VERIF_EVID", os.path.join(VERIF, "evidence"))
REPO = os.environ.get("VERIF_REPO", "/repo")
CACHE = os.environ.get("VERIF_CACHE", os.path.join(VERIF, "work", "cache"))      # model results depend on spec/ only
JAR = "/opt/veriftools/tla/tla2tools.jar:/opt/veriftools/tla/CommunityModules-deps.jar"
NCPU = os.cpu_count() or 4

class ToolError(Exception):
    pass

def log(*a):
    print("[check]", *a, file=sys.stderr, flush=True)

def sh(cmd, timeout=None, env=None, cwd=None, stdin=None, stdout=subprocess.PIPE):
    e = dict(os.environ)
    if env:
        e.update(env)
    return subprocess.run(cmd, shell=isinstance(cmd, str), stdout=stdout, stderr=subprocess.STDOUT,
                          timeout=timeout, env=e, cwd=cwd, stdin=stdin)

# ---------------------------------------------------------------------------
# harness builds (always from /repo's current working tree; cargo decides what is stale)
# ---------------------------------------------------------------------------
_built = {}

def build_harness(kind):
    """kind: 'full' (real constants) or 'small' (BUFFER_SIZE=32, MAX_CONNECTIONS=3)."""
    if kind in _built:
        return _built[kind]
    flags = "--cfg micro_http_verif --check-cfg cfg(micro_http_verif) --check-cfg cfg(micro_http_verif_small)"
    if kind == "small":
        flags += " --cfg micro_http_verif_small"
    tdir = os.path.join(WORK, "target-" + kind)
    hdir = os.path.join(VERIF, "harness")
    if REPO != "/repo":
        # scratch evaluation: a copy of the harness whose path dependency points at the other tree
        hdir = os.path.join(WORK, "harness-src")
        if not os.path.exists(hdir):
            shutil.copytree(os.path.join(VERIF, "harness"), hdir, ignore=shutil.ignore_patterns("target*"))
            ct = open(os.path.join(hdir, "Cargo.toml")).read().replace('path = "/repo"', 'path = "%s"' % REPO)
            open(os.path.join(hdir, "Cargo.toml"), "w").write(ct)
    t0 = time.time()
    r = sh(["cargo", "build", "--release", "--offline", "--quiet"], cwd=hdir,
           env={"RUSTFLAGS": flags, "CARGO_TARGET_DIR": tdir, "CARGO_NET_OFFLINE": "true"}, timeout=1800)
    if r.returncode != 0:
        sys.stderr.write(r.stdout.decode(errors="replace")[-4000:])
        raise ToolError("harness build (%s) failed" % kind)
    log("harness %s built in %.1fs" % (kind, time.time() - t0))
    _built[kind] = os.path.join(tdir, "release", "mh")
    return _built[kind]

# ---------------------------------------------------------------------------
# TLC: model runs (cached by content hash of the spec directory + cfg)
# ---------------------------------------------------------------------------
def spec_hash(module, cfg):
    """Content hash of every module of the specification and of the one configuration used."""
    h = hashlib.sha256()
    for p in sorted(glob.glob(os.path.join(SPEC, "*.tla"))) + [os.path.join(SPEC, cfg)]:
        h.update(os.path.basename(p).encode())
        h.update(open(p, "rb").read())
    h.update(module.encode())
    return h.hexdigest()[:20]

def tlc_cmd(module, cfg, metadir, workers, extra=(), xmx="12g", deque=False):
    jopts = ["-XX:+UseParallelGC", "-Xmx" + xmx, "-Xss1g", "-Djava.io.tmpdir=" + os.path.join(WORK, "tmp")]
    if deque:
        jopts.append("-Dtlc2.tool.queue.IStateQueue=StateDeque")
    return ["java"] + jopts + ["-cp", JAR, "tlc2.TLC", "-workers", str(workers), "-metadir", metadir,
                               "-cleanup", "-noGenerateSpecTE", "-config", cfg] + list(extra) + [module]

def parse_tlc(out):
    res = {"ok": False, "states_generated": 0, "distinct": 0, "depth": 0, "violated": None, "error": None}
    m = re.search(r"(\d+) states generated, (\d+) distinct states found", out)
    if m:
        res["states_generated"] = int(m.group(1))
        res["distinct"] = int(m.group(2))
    m = re.search(r"depth of the complete state graph search is (\d+)", out)
    if m:
        res["depth"] = int(m.group(1))
    m = re.search(r"Error: Invariant (\S+) is violated", out)
    if m:
        res["violated"] = m.group(1)
    m = re.search(r"Error: (Temporal properties were violated|Action property .*? is violated)", out)
    if m:
        res["violated"] = m.group(1)
    if "Model checking completed. No error has been found." in out:
        res["ok"] = True
    elif res["violated"] is None:
        m = re.search(r"Error: (.*)", out)
        res["error"] = m.group(1) if m else "TLC did not complete"
    # vacuity guard: witnesses printed by the model (TLC's -coverage runs out of memory on
    # this specification: its cost model inlines the operator call graph)
    wit = {}
    for m in re.finditer(r'<<"WITNESS", "(\w+)">>', out):
        wit[m.group(1)] = wit.get(m.group(1), 0) + 1
    res["witnesses"] = sorted(wit)
    return res

def run_model(name, module, cfg, timeout_s, workers=None, need=()):
    """Runs one exhaustive TLC configuration (cached by spec hash).  Returns the parsed result."""
    os.makedirs(CACHE, exist_ok=True)
    os.makedirs(os.path.join(WORK, "tmp"), exist_ok=True)
    key = spec_hash(module, cfg)
    cpath = os.path.join(CACHE, "%s-%s.json" % (name, key))
    if os.path.exists(cpath) and not os.environ.get("VERIF_NOCACHE"):
        r = json.load(open(cpath))
        r["cached"] = True
        return r
    metadir = os.path.join(WORK, "tlc", name)
    shutil.rmtree(metadir, ignore_errors=True)
    t0 = time.time()
    cmd = tlc_cmd(os.path.join(SPEC, module), os.path.join(SPEC, cfg), metadir, workers or NCPU, extra=[])
    try:
        p = sh(cmd, timeout=timeout_s, cwd=SPEC)
    except subprocess.TimeoutExpired:
        raise ToolError("TLC model %s timed out after %ds" % (name, timeout_s))
    out = p.stdout.decode(errors="replace")
    r = parse_tlc(out)
    r["wall_s"] = round(time.time() - t0, 1)
    r["name"] = name
    r["cfg"] = cfg
    r["cached"] = False
    shutil.rmtree(metadir, ignore_errors=True)
    if r["error"]:
        open(os.path.join(WORK, "tlc-%s.log" % name), "w").write(out)
        raise ToolError("TLC model %s failed: %s (log: work/tlc-%s.log)" % (name, r["error"], name))
    missing = [a for a in need if a not in r["witnesses"]]
    if r["ok"] and missing:
        raise ToolError("model %s is vacuous: witnesses never reached: %s" % (name, missing))
    if r["violated"]:
        open(os.path.join(WORK, "tlc-%s.log" % name), "w").write(out)
    else:
        json.dump(r, open(cpath, "w"))
    log("model %s: %d distinct states, %d generated, %.1fs%s" % (name, r["distinct"], r["states_generated"], r["wall_s"],
        "" if r["ok"] else " VIOLATED " + str(r["violated"])))
    return r

def run_proof(name, modules, main, timeout_s=900):
    """Checks a TLAPS proof (tlapm) on a scratch copy of the given modules; cached by their content."""
    os.makedirs(CACHE, exist_ok=True)
    h = hashlib.sha256()
    for mname in modules:
        h.update(open(os.path.join(SPEC, mname), "rb").read())
    cpath = os.path.join(CACHE, "proof-%s-%s.json" % (name, h.hexdigest()[:20]))
    if os.path.exists(cpath) and not os.environ.get("VERIF_NOCACHE"):
        r = json.load(open(cpath))
        r["cached"] = True
        return r
    d = os.path.join(WORK, "tlaps-" + name)
    shutil.rmtree(d, ignore_errors=True)
    os.makedirs(d)
    for mname in modules:
        shutil.copy(os.path.join(SPEC, mname), d)
    t0 = time.time()
    try:
        p = sh(["tlapm", "--threads", "8", "--cleanfp", main], timeout=timeout_s, cwd=d)
    except subprocess.TimeoutExpired:
        raise ToolError("tlapm timed out on %s" % main)
    out = p.stdout.decode(errors="replace")
    m = re.search(r"All (\d+) obligations? proved", out)
    f = re.search(r"(\d+)/(\d+) obligations? failed", out)
    r = {"name": name, "module": main, "ok": bool(m) and p.returncode == 0, "obligations": int(m.group(1)) if m else (int(f.group(2)) if f else 0),
         "failed": int(f.group(1)) if f else 0, "wall_s": round(time.time() - t0, 1), "cached": False}
    if not m and not f:
        open(os.path.join(WORK, "tlapm-%s.log" % name), "w").write(out)
        raise ToolError("tlapm did not complete on %s (log: work/tlapm-%s.log)" % (main, name))
    shutil.rmtree(d, ignore_errors=True)
    if r["ok"]:
        json.dump(r, open(cpath, "w"))
    else:
        open(os.path.join(WORK, "tlapm-%s.log" % name), "w").write(out)
    log("proof %s: %d obligations, %d failed, %.1fs" % (name, r["obligations"], r["failed"], r["wall_s"]))
    return r

# ---------------------------------------------------------------------------
# trace validation: shard at run boundaries, one single-worker TLC per shard
# ---------------------------------------------------------------------------
def shard_trace(path, nshards, outdir, boundary='"e":"new"'):
    """Splits an NDJSON trace into <= nshards files at run boundaries, balancing bytes."""
    os.makedirs(outdir, exist_ok=True)
    total = os.path.getsize(path)
    target = max(total // nshards + 1, 1)
    files, cur, cur_bytes, idx = [], None, 0, 0
    with open(path, "rb") as f:
        for line in f:
            if (cur is None) or (cur_bytes >= target and boundary.encode() in line[:400] + line[-400:]):
                if cur:
                    cur.close()
                p = os.path.join(outdir, "shard%02d.ndjson" % idx)
                idx += 1
                cur = open(p, "wb")
                files.append(p)
                cur_bytes = 0
            cur.write(line)
            cur_bytes += len(line)
    if cur:
        cur.close()
    return files

def validate_shard(module, cfg, shard, metadir, timeout_s, xmx="3g"):
    env = {"TRACE": shard}
    cmd = tlc_cmd(os.path.join(SPEC, module), cfg, metadir, 1, xmx=xmx, deque=True)
    t0 = time.time()
    try:
        p = sh(cmd, timeout=timeout_s, env=env, cwd=SPEC)
    except subprocess.TimeoutExpired:
        return {"shard": shard, "error": "timeout", "mismatches": [], "consumed": 0, "states": 0}
    out = p.stdout.decode(errors="replace")
    shutil.rmtree(metadir, ignore_errors=True)
    mism = []
    for m in re.finditer(r'^"MISMATCH (.*)"$', out, re.M):
        try:
            mism.append(json.loads(json.loads('"' + m.group(1) + '"')))
        except Exception:
            mism.append({"raw": m.group(1)[:2000]})
    res = {"shard": shard, "mismatches": mism, "error": None, "wall_s": round(time.time() - t0, 1)}
    m = re.search(r"TRACE_CONSUMED (\d+)", out)
    res["consumed"] = int(m.group(1)) if m else 0
    pr = parse_tlc(out)
    res["states"] = pr["distinct"]
    if pr["violated"]:
        res["error"] = "invariant %s violated while validating" % pr["violated"]
    elif not m:
        s = re.search(r"TRACE_STUCK.*", out)
        res["error"] = s.group(0) if s else (pr["error"] or "trace not consumed")
        open(shard + ".tlc.log", "w").write(out)
    return res

def validate_trace(module, cfg_text, trace, tag, timeout_s=900, nshards=None, boundary='"e":"new"'):
    """Validates a trace file; returns (results, total_events)."""
    d = os.path.join(WORK, "val-" + tag)
    shutil.rmtree(d, ignore_errors=True)
    os.makedirs(d)
    cfg = os.path.join(d, "trace.cfg")
    open(cfg, "w").write(cfg_text)
    shards = shard_trace(trace, nshards or NCPU, d, boundary)
    with ThreadPoolExecutor(max_workers=NCPU) as ex:
        futs = [ex.submit(validate_shard, module, cfg, s, os.path.join(d, "md%02d" % i), timeout_s) for i, s in enumerate(shards)]
        res = [f.result() for f in futs]
    return res

# ---------------------------------------------------------------------------
# known findings
# ---------------------------------------------------------------------------
def load_known():
    """Lines:  known: property=<id> signature=<regex on the violation signature> <text>
               fixed: property=<id> <commit> <what failed>      (suppresses nothing)"""
    out = []
    p = os.path.join(VERIF, "KNOWN_FINDINGS.txt")
    if os.path.exists(p):
        for line in open(p):
            m = re.match(r"known:\s+property=(\S+)\s+signature=(\S+)\s+(.*)", line.strip())
            if m:
                out.append({"property": m.group(1), "signature": m.group(2), "text": m.group(3)})
    return out

# ---------------------------------------------------------------------------
# evidence
# ---------------------------------------------------------------------------
def write_evidence(pid, tier, seed, coverage, wall, violations, assumptions, extra=None):
    os.makedirs(EVID, exist_ok=True)
    ev = {"property_id": pid, "tier": tier, "seed": seed, "level": "model_checking",
          "coverage": coverage, "assumptions": assumptions, "wall_s": round(wall, 1), "violations": violations}
    if extra:
        ev.update(extra)
    json.dump(ev, open(os.path.join(EVID, pid + ".json"), "w"), indent=1)

_saved = [0]

def save_replay(pid, payload):
    """Writes a replay file; at most 12 per run (the rest would be more of the same)."""
    os.makedirs(REPLAY, exist_ok=True)
    _saved[0] += 1
    if _saved[0] > 12:
        return os.path.join(REPLAY, "(not written: more than 12 violations in this run)")
    blob = json.dumps(payload, sort_keys=True)
    name = "%s-%s.json" % (pid, hashlib.sha256(blob.encode()).hexdigest()[:12])
    path = os.path.join(REPLAY, name)
    open(path, "w").write(json.dumps(payload, indent=1))
    return path

# ---------------------------------------------------------------------------
def main(argv):
    import props
    if not argv:
        print(__doc__)
        return 2
    os.makedirs(WORK, exist_ok=True)
    os.makedirs(os.path.join(WORK, "tmp"), exist_ok=True)
    try:
        if argv[0] == "--setup":
            sh([sys.executable, os.path.join(VERIF, "tools", "gen_lexicon.py")])
            build_harness("full")
            build_harness("small")
            return 0
        if argv[0] == "--replay":
            return props.replay(argv[1])
        pid = argv[0]
        tier = argv[1] if len(argv) > 1 else os.environ.get("VERIF_TIER", "quick")
        seed = int(os.environ.get("VERIF_SEED", "1"))
        return props.run(pid, tier, seed)
    except ToolError as e:
        print("TOOL-ERROR:", e, file=sys.stderr)
        return 2
    except subprocess.TimeoutExpired as e:
        print("TOOL-ERROR: timeout", e, file=sys.stderr)
        return 2
    except Exception:
        # a defect of the machinery itself is never a verdict about the code
        import traceback
        traceback.print_exc()
        print("TOOL-ERROR: internal error of the check", file=sys.stderr)
        return 2
