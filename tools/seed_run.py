#!/usr/bin/env python3
"""Runs the TARGET check (quick) of seeded changes against scratch worktrees (never /repo), several at a time,
and records the outcome in seeded/<id>/meta.json like `seed_eval.py run` does.
Usage: seed_run.py [-j N] <id> ..."""
import json, os, shutil, subprocess, sys, time
from concurrent.futures import ThreadPoolExecutor

VERIF = os.path.dirname(os.path.dirname(os.path.abspath(__file__)))

def one(sid):
    d = os.path.join(VERIF, "seeded", sid)
    meta = json.load(open(os.path.join(d, "meta.json")))
    c = meta["property"]
    wt, wk, snap = "/tmp/sr-" + sid, "/tmp/srw-" + sid, "/tmp/srs-" + sid
    subprocess.run("git -C /repo worktree remove --force %s" % wt, shell=True, stdout=subprocess.DEVNULL, stderr=subprocess.DEVNULL)
    shutil.rmtree(wk, ignore_errors=True)
    subprocess.run("git -C /repo worktree add -q --detach %s HEAD" % wt, shell=True, check=True)
    # the machinery runs from a snapshot of /verif (editing /verif meanwhile does not disturb the run);
    # model results are shared through the cache, which is keyed by the content of spec/
    shutil.rmtree(snap, ignore_errors=True)
    os.makedirs(snap)
    for item in ("check", "tools", "spec", "harness", "KNOWN_FINDINGS.txt"):
        src = os.path.join(VERIF, item)
        if os.path.isdir(src):
            shutil.copytree(src, os.path.join(snap, item), ignore=shutil.ignore_patterns("target*", "__pycache__", "states"))
        else:
            shutil.copy2(src, os.path.join(snap, item))
    try:
        subprocess.run("git apply %s" % os.path.join(d, "patch.diff"), shell=True, cwd=wt, check=True)
        env = dict(os.environ, VERIF_REPO=wt, VERIF_WORK=wk, VERIF_EVID=os.path.join(wk, "evidence"), VERIF_REPLAY=os.path.join(wk, "replay"), VERIF_CACHE=os.path.join(VERIF, "work", "cache"))
        t0 = time.time()
        try:
            p = subprocess.run(["./check", c, "quick"], cwd=snap, env=env, stdout=subprocess.PIPE, stderr=subprocess.STDOUT, timeout=3600)
            out, rc = p.stdout.decode(errors="replace"), p.returncode
        except subprocess.TimeoutExpired:
            out, rc = "TIMEOUT", 124
        viol = [l for l in out.split("\n") if l.startswith("VIOLATION")]
        sigs = [l.split("signature:")[1].strip() for l in out.split("\n") if "signature:" in l]
        res = {"exit": rc, "caught": rc == 1 and bool(viol), "signatures": sigs[:5], "wall_s": round(time.time() - t0),
               "tail": out.strip().split("\n")[-3:], "how": "scratch worktree (VERIF_REPO)"}
        meta["checks"][c] = res
        json.dump(meta, open(os.path.join(d, "meta.json"), "w"), indent=1)
        print(sid, c, "CAUGHT" if res["caught"] else ("missed" if rc == 0 else "exit %d" % rc), sigs[:2], flush=True)
    finally:
        subprocess.run("git -C /repo worktree remove --force %s" % wt, shell=True, stdout=subprocess.DEVNULL, stderr=subprocess.DEVNULL)
        shutil.rmtree(wt, ignore_errors=True)
        shutil.rmtree(wk, ignore_errors=True)
        shutil.rmtree(snap, ignore_errors=True)

def main():
    a = sys.argv[1:]
    j = 3
    if a and a[0] == "-j":
        j = int(a[1]); a = a[2:]
    with ThreadPoolExecutor(max_workers=j) as ex:
        list(ex.map(one, a))

if __name__ == "__main__":
    main()
