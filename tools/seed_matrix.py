#!/usr/bin/env python3
"""Runs EVERY check (quick) against one seeded change in a scratch worktree, without touching /repo,
/verif/evidence or /verif/work (env overrides of tools/vcheck.py), and stores which checks fired in
/verif/seeded/<id>/matrix.json.  Usage: seed_matrix.py <id> [check ...]"""
import json, os, shutil, subprocess, sys, time

VERIF = os.path.dirname(os.path.dirname(os.path.abspath(__file__)))
ALL = ["C%02d" % i for i in range(1, 19)]

def main():
    sid = sys.argv[1]
    checks = sys.argv[2:] or ALL
    d = os.path.join(VERIF, "seeded", sid)
    wt = "/tmp/mx-" + sid
    wk = "/tmp/mxw-" + sid
    subprocess.run("git -C /repo worktree remove --force %s" % wt, shell=True, stdout=subprocess.DEVNULL, stderr=subprocess.DEVNULL)
    shutil.rmtree(wk, ignore_errors=True)
    subprocess.run("git -C /repo worktree add -q --detach %s HEAD" % wt, shell=True, check=True)
    out = {}
    try:
        subprocess.run("git apply %s" % os.path.join(d, "patch.diff"), shell=True, cwd=wt, check=True)
        env = dict(os.environ, VERIF_REPO=wt, VERIF_WORK=wk, VERIF_EVID=os.path.join(wk, "evidence"), VERIF_REPLAY=os.path.join(wk, "replay"))
        for c in checks:
            t0 = time.time()
            try:
                p = subprocess.run(["./check", c, "quick"], cwd=VERIF, env=env, stdout=subprocess.PIPE, stderr=subprocess.STDOUT, timeout=3600)
                txt = p.stdout.decode(errors="replace")
                rc = p.returncode
            except subprocess.TimeoutExpired:
                txt, rc = "TIMEOUT", 124
            sigs = [l.split("signature:")[1].strip() for l in txt.split("\n") if "signature:" in l]
            out[c] = {"exit": rc, "fired": rc == 1, "signatures": sorted(set(sigs))[:12], "wall_s": round(time.time() - t0)}
            print(sid, c, "FIRED" if rc == 1 else ("ok" if rc == 0 else "exit %d" % rc), sigs[:1], flush=True)
    finally:
        subprocess.run("git -C /repo worktree remove --force %s" % wt, shell=True)
        shutil.rmtree(wt, ignore_errors=True)
        shutil.rmtree(wk, ignore_errors=True)
        json.dump(out, open(os.path.join(d, "matrix.json"), "w"), indent=1)

if __name__ == "__main__":
    main()
