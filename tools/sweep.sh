#!/bin/bash
# sweep.sh <seed> <tier> <ids...>: runs checks on the UNCHANGED tree from a snapshot of /verif with its own work
# directory (false-alarm sweep while /verif is being edited); results in /tmp/sweep-<seed>/log
seed=$1; tier=$2; shift 2
d=/tmp/sweep-$seed
rm -rf $d; mkdir -p $d/verif
cd /verif && cp -r check tools spec KNOWN_FINDINGS.txt $d/verif/ && mkdir -p $d/verif/harness && cp -r harness/src harness/Cargo.toml harness/Cargo.lock harness/.cargo $d/verif/harness/ 2>/dev/null
cd $d/verif
for id in "$@"; do
  VERIF_SEED=$seed VERIF_WORK=$d/work VERIF_EVID=$d/evidence VERIF_REPLAY=$d/replay VERIF_CACHE=/verif/work/cache ./check $id $tier > $d/$id.out 2>&1
  echo "$id exit=$? $(tail -1 $d/$id.out)" >> $d/log
done
echo DONE >> $d/log
