#!/usr/bin/env python3
"""Non-vacuity of the model-level checks: each entry changes the SPECIFICATION (a design-level
slip, applied to a scratch copy of spec/) and names the configuration and the invariant/property
that must then fail.  A mutant that survives means the invariant constrains nothing there.
Usage: spec_mutants.py [name ...]      (results of a full run: selftest/spec_mutants.json; exit 1 if one survives)"""
import json, os, re, shutil, subprocess, sys, time

VERIF = os.path.dirname(os.path.dirname(os.path.abspath(__file__)))
sys.path.insert(0, os.path.join(VERIF, "tools"))
import vcheck as V

# (name, file, old, new, module, cfg, what must be reported)
M = [
 ("sweep_ignores_inflight", "HttpServer.tla",
  'IsDone(cn) == cn.st = "Closed" /\\ ~PendingWrite(cn.http) /\\ cn.infl = 0',
  'IsDone(cn) == cn.st = "Closed" /\\ ~PendingWrite(cn.http)',
  "MC_Server.tla", "MC_Server_quick.cfg", r"TokensOK|ServerAbs"),
 ("respond_keeps_count", "HttpServer.tla",
  '                   !.srv[tok.fd].infl = @ - 1]',
  '                   !.srv[tok.fd].infl = @]',
  "MC_Server.tla", "MC_Server_quick.cfg", r"TokensOK|ServerAbs"),
 ("write_done_stays_outgoing", "HttpServer.tla",
  '                  ELSE IF ~PendingWrite(w.c) THEN "AwaitingIncoming" ELSE cn.st',
  '                  ELSE cn.st',
  "MC_Server.tla", "MC_Server_quick.cfg", r"PollOK|InterestsOK"),
 ("respond_does_not_arm_out", "HttpServer.tla",
  '                   !.srv[tok.fd].intr = IF cn.st = "AwaitingIncoming" THEN "OUT" ELSE @,',
  '                   !.srv[tok.fd].intr = @,',
  "MC_Server.tla", "MC_Server_quick.cfg", r"InterestsOK|NoStall"),
 ("closed_entries_handled", "HttpServer.tla",
  '    ELSE IF S.srv[f].st = "Closed" THEN [S |-> S, stop |-> ""]     \\* kept only to absorb late responses\n',
  '',
  "MC_Server.tla", "MC_Server_quick.cfg", r"PollOK|InterestsOK|TokensOK"),
 ("kill_event_ignored", "HttpServer.tla",
  '    IF f = KFD THEN [S |-> S, stop |-> "shutdown"]',
  '    IF f = KFD THEN [S |-> S, stop |-> ""]',
  "MC_Server.tla", "MC_Server_kill.cfg", r"KillWins"),
 ("refusal_without_message", "HttpServer.tla",
  '                   !.s2c[c] = IF PeerGone(S, c) THEN @ ELSE @ \\o L_SERVER_FULL,',
  '                   !.s2c[c] = @,',
  "MC_Server.tla", "MC_Server_capq.cfg", r"Refused503"),
 ("hup_does_not_mask_writes", "HttpServer.tla",
  '    ELSE IF kind = "HUP" THEN [S |-> [S EXCEPT !.srv[f].http = ClearWrite(@), !.srv[f].st = "Closed"], stop |-> ""]',
  '    ELSE IF kind = "HUP" THEN [S |-> [S EXCEPT !.srv[f].st = "Closed"], stop |-> ""]',
  "MC_Server.tla", "MC_Server_quick.cfg", r"ReleasableReady|InterestsOK|NoStall|Temporal"),
 ("files_stay_after_delivery", "HttpConn.tla",
  '    [c EXCEPT !.ph = "RL", !.pending = NoReq, !.bodyVec = <<>>, !.files = <<>>,\n              !.parsed',
  '    [c EXCEPT !.ph = "RL", !.pending = NoReq, !.bodyVec = <<>>,\n              !.parsed',
  "MC_Server.tla", "MC_Server_fdsq.cfg", r"FilesOK"),
 ("reset_keeps_buffer", "HttpConn.tla",
  'ResetParser(c) == [c EXCEPT !.ph = "RL", !.buf = <<>>, !.pending = NoReq, !.bodyVec = <<>>, !.files = <<>>]',
  'ResetParser(c) == [c EXCEPT !.ph = "RL", !.pending = NoReq, !.bodyVec = <<>>, !.files = <<>>]',
  "MC_Conn.tla", "MC_Conn_quick.cfg", r"FreshAfterError|Refines"),
 ("continue_without_expect", "HttpConn.tla",
  '            ELSE IF c.pending.h.expect\n',
  '            ELSE IF TRUE\n',
  "MC_Conn.tla", "MC_Conn_quick.cfg", r"ContinueRule|Refines"),
 ("limit_not_strict", "HttpConn.tla",
  '            ELSE IF DigLess(c.limit, cl) THEN Fail(c, outs, E_SizeLimit(c.limit, cl))',
  '            ELSE IF DigLess(c.limit, cl) \\/ c.limit = cl THEN Fail(c, outs, E_SizeLimit(c.limit, cl))',
  "MC_Conn.tla", "MC_Conn_quick.cfg", r"Refines|BodyBound"),
 ("continue_before_limit_check", "HttpConn.tla",
  '            ELSE IF DigLess(c.limit, cl) THEN Fail(c, outs, E_SizeLimit(c.limit, cl))',
  '            ELSE IF DigLess(c.limit, cl) THEN Fail([c EXCEPT !.respQ = IF c.pending.h.expect THEN Append(@, Ser100(c.pending.v)) ELSE @], outs, E_SizeLimit(c.limit, cl))',
  "MC_Server.tla", "MC_Server_progs.cfg", r"NoContinueForRefused"),
 ("failed_write_keeps_queue", "HttpConn.tla",
  'ClearWrite(c) == [c EXCEPT !.respQ = <<>>, !.respBuf = <<>>]',
  'ClearWrite(c) == [c EXCEPT !.respBuf = <<>>]',
  "MC_Write.tla", "MC_Write.cfg", r"FailureDiscards|PrefixOK|PendingOK"),
 ("set_body_keeps_length", "HttpResp.tla",
  'SetBody(r, b) == [r EXCEPT !.hasBody = TRUE, !.body = b, !.hasCl = TRUE, !.cl = Len(b)]',
  'SetBody(r, b) == [r EXCEPT !.hasBody = TRUE, !.body = b, !.hasCl = TRUE]',
  "MC_Resp.tla", "MC_Resp.cfg", r"ClRule|SelfDelimiting|Shape"),
 ("no_length_for_every_status", "HttpResp.tla",
  '     hasCl |-> ~(code \\in {100, 204}), cl |-> 0, ctype |-> "json", enc |-> FALSE,',
  '     hasCl |-> ~(code \\in {100, 204, 404}), cl |-> 0, ctype |-> "json", enc |-> FALSE,',
  "MC_Resp.tla", "MC_Resp.cfg", r"ClRule|SelfDelimiting|Shape"),
 ("header_names_case_sensitive", "HttpLex.tla",
  '    LET t == Trim(AsciiLower(nameBytes)) IN',
  '    LET t == Trim(nameBytes) IN',
  "MC_Fn.tla", "MC_Fn_quick.cfg", r"CaseOK"),
 ("second_registration_wins", "Router.tla",
  '    IN IF hits = {} THEN 0 ELSE MinOf(hits)',
  '    IN IF hits = {} THEN 0 ELSE MaxOf(hits)',
  "MC_Fn.tla", "MC_Fn_quick.cfg", r"CaseOK"),
 ("write_done_keeps_out_interest", "HttpServer.tla",
  '                           !.srv[f].intr = IF st2 = "AwaitingIncoming" THEN "IN" ELSE @,',
  '                           !.srv[f].intr = @,',
  "MC_Server.tla", "MC_Server_quick.cfg", r"InterestsOK|PollOK|Action property"),
 ("read_with_output_stays_in", "HttpServer.tla",
  '                    !.srv[f].intr = IF out THEN "OUT" ELSE @,',
  '                    !.srv[f].intr = @,',
  "MC_Server.tla", "MC_Server_progs.cfg", r"InterestsOK|NoStall|Action property"),
 ("clear_keeps_partial_response", "MC_Write.tla",
  "Clear == /\\ c' = ClearWrite(c)",
  "Clear == /\\ c' = [c EXCEPT !.respQ = <<>>]",
  "MC_Write.tla", "MC_Write.cfg", r"PrefixOK|PendingOK|ClearOK|Action property"),
 ("intr_flush_keeps_out_interest", "ServerIntr.tla",
  """            /\\ intr' = [f \\in FD |-> IF f \\in R /\\ st'[f] = "In" THEN "IN" ELSE intr[f]]""",
  """            /\\ intr' = intr""",
  "PROOF", "ServerIntr_proofs.tla", r"obligations failed"),
 ("intr_respond_does_not_arm_out", "ServerIntr.tla",
  """                      /\\ intr' = [intr EXCEPT ![f] = "OUT"]""",
  """                      /\\ intr' = intr""",
  "PROOF", "ServerIntr_proofs.tla", r"obligations failed"),
 ("pop_takes_the_newest", "HttpConn.tla",
  "PopParsed(c) == [c EXCEPT !.parsed = Tail(@)]",
  "PopParsed(c) == [c EXCEPT !.parsed = SubSeq(@, 1, Len(@) - 1)]",
  "MC_Conn.tla", "MC_Conn_files.cfg", r"ParsedQueueOK"),
 ("abs_sweep_ignores_inflight", "ServerAbs.tla",
  'Sweep(R) == /\\ R \\subseteq {f \\in FD : st[f] = "closed" /\\ infl[f] = 0}',
  'Sweep(R) == /\\ R \\subseteq {f \\in FD : st[f] = "closed"}',
  "PROOF", "ServerAbs_proofs.tla", r"obligations failed"),
]

def run(m):
    name, fname, old, new, module, cfg, expect = m
    d = os.path.join("/tmp", "specmut-" + name)
    shutil.rmtree(d, ignore_errors=True)
    shutil.copytree(V.SPEC, d, ignore=shutil.ignore_patterns(".tlacache", "states"))
    p = os.path.join(d, fname)
    s = open(p).read()
    if s.count(old) != 1:
        shutil.rmtree(d, ignore_errors=True)
        return {"name": name, "outcome": "STALE", "detail": "pattern occurs %d times in %s" % (s.count(old), fname)}
    open(p, "w").write(s.replace(old, new))
    t0 = time.time()
    try:
        if module == "PROOF":
            pr = V.sh(["tlapm", "--threads", "8", "--cleanfp", cfg], timeout=900, cwd=d)
        else:
            pr = V.sh(V.tlc_cmd(os.path.join(d, module), os.path.join(d, cfg), os.path.join(d, "md"), 8, extra=[]), timeout=1800, cwd=d)
        out = pr.stdout.decode(errors="replace")
    except subprocess.TimeoutExpired:
        out = "TIMEOUT"
    finally:
        pass
    found = re.findall(r"Error: Invariant (\S+) is violated|Error: (Action property .*? is violated)|Error: (Temporal properties were violated)|(\d+/\d+ obligations failed)", out)
    flat = [x for t in found for x in t if x]
    ok = any(re.search(expect, x) for x in flat)
    shutil.rmtree(d, ignore_errors=True)
    return {"name": name, "file": fname, "model": "%s/%s" % (module, cfg), "expected": expect, "reported": flat[:3],
            "outcome": "killed" if ok else ("killed-by-other" if flat else "SURVIVED"), "wall_s": round(time.time() - t0)}

def main():
    sel = sys.argv[1:]
    os.makedirs(os.path.join(V.WORK, "tmp"), exist_ok=True)
    res = []
    for m in M:
        if sel and m[0] not in sel:
            continue
        r = run(m)
        res.append(r)
        print("%-28s %-16s %s" % (r["name"], r["outcome"], r.get("reported") or r.get("detail")), flush=True)
    if not sel:
        os.makedirs(os.path.join(VERIF, "selftest"), exist_ok=True)
        json.dump(res, open(os.path.join(VERIF, "selftest", "spec_mutants.json"), "w"), indent=1)
    bad = [r for r in res if r["outcome"] in ("SURVIVED", "STALE")]
    return 1 if bad else 0

if __name__ == "__main__":
    sys.exit(main())
