#!/usr/bin/env python3
"""Prints the markdown table of seeded changes (DESIGN.md section 13) from seeded/*/meta.json."""
import glob, json, os
V = os.path.dirname(os.path.dirname(os.path.abspath(__file__)))
rows = []
for mp in sorted(glob.glob(os.path.join(V, "seeded", "*", "meta.json"))):
    m = json.load(open(mp))
    target = m["property"]
    r = m["checks"].get(target, {})
    sig = (r.get("signatures") or ["-"])[0]
    mx = os.path.join(os.path.dirname(mp), "matrix.json")
    also = ""
    if os.path.exists(mx):
        j = json.load(open(mx))
        also = ", ".join(sorted(c for c, x in j.items() if x.get("fired") and c != target))
    rows.append((m["id"], m.get("round", "?"), m["needs_to_manifest"], "yes" if r.get("caught") else "NO", sig, m.get("history", ""), also))
print("| id | round | change / what it needs to manifest | caught by its check | first signature | other checks that fired | history |")
print("|---|---|---|---|---|---|---|")
for r in rows:
    print("| %s | %s | %s | %s | `%s` | %s | %s |" % (r[0], r[1], r[2].replace("|", "\\|"), r[3], r[4].replace("|", "\\|")[:90], r[6] or "", r[5]))
