#!/bin/sh
# usage: tlc_trace.sh <spec.tla> <cfg> <trace.ndjson> <metadir>   (single worker, DFS queue)
TRACE="$3" JAVA_TOOL_OPTIONS="-Xss1g -Dtlc2.tool.queue.IStateQueue=StateDeque -Djava.io.tmpdir=/verif/work/tmp" \
  exec java -XX:+UseParallelGC -Xmx${TLC_XMX:-3g} -cp /opt/veriftools/tla/tla2tools.jar:/opt/veriftools/tla/CommunityModules-deps.jar \
  tlc2.TLC -workers 1 -metadir "$4" -cleanup -noGenerateSpecTE -config "$2" "$1"
