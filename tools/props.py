"""Per-property procedures: which TLC models decide the property on the specification,
which drivers bind it to the code, how a divergence is attributed, what is non-trivial."""
import hashlib, json, os, re, subprocess, sys, time
import vcheck as V

TRACE_CFG = """SPECIFICATION Spec
CONSTANTS
  BUF = %d
INVARIANT StructOK
POSTCONDITION Accepted
CHECK_DEADLOCK FALSE
"""

# ---------------------------------------------------------------------------
# model configurations (module, cfg, timeout seconds, actions that must have fired)
# ---------------------------------------------------------------------------
W_CONN_Q = ["body_delivered", "continue", "size_limit", "header_too_long", "reqline_too_long", "bad_method",
            "bad_format", "pipelined", "delivery_after_error", "cr_lf_split", "partial_body", "carry_after_output",
            "ignored_header", "custom_header"]
W_CONN_ALL = W_CONN_Q + ["bad_uri", "bad_version", "bad_value"]
MODELS = {
    # guided sender, 4 template lines out of 13, every chunk size: ~680 k states, ~50 s
    "conn_quick": ("MC_Conn.tla", "MC_Conn_quick.cfg", 1200, W_CONN_Q),
    # guided sender, 4 lines out of all 24 templates: 4.8 M states, 64 M transitions, ~7 min
    "conn_guided4": ("MC_Conn.tla", "MC_Conn_guided4.cfg", 3600, W_CONN_ALL),
    # free sender (any template after any), 3 lines: 690 k states
    "conn_free3": ("MC_Conn.tla", "MC_Conn_free3.cfg", 1800, ["bad_method", "bad_uri", "bad_version", "bad_format", "bad_value", "cr_lf_split"]),
    # server: 2 clients (one rogue), MaxConn 2, 4 programs, flush, every batch order, atomic polls
    "srv_quick": ("MC_Server.tla", "MC_Server_quick.cfg", 1200, ["two_event_batch", "swept_after_respond", "respond_on_closed", "pipelined_yield",
                  "partial_write", "interim_sent", "flush_used", "fd_reused", "error_400", "epipe", "discard_on_error", "closed_with_inflight"]),
    "srv_progs": ("MC_Server.tla", "MC_Server_progs.cfg", 1200, ["two_event_batch", "pipelined_yield", "partial_write", "error_400", "discard_on_error"]),
    # clients move between the sub-steps of a poll (race-only branches)
    "srv_race": ("MC_Server.tla", "MC_Server_race.cfg", 1200, ["hup_mid_poll", "closed_with_inflight", "epipe", "respond_on_closed"]),
    # kill switch signalled at any point of the application's turn
    "srv_kill": ("MC_Server.tla", "MC_Server_kill.cfg", 1200, ["kill_returned", "two_event_batch", "interim_sent"]),
    # 3 clients against MaxConn = 2: refusal with 503, release, descriptor reuse
    "srv_capq": ("MC_Server.tla", "MC_Server_capq.cfg", 1200, ["refused", "fd_reused", "closed_with_inflight", "swept_after_respond"]),
    "srv_cap": ("MC_Server.tla", "MC_Server_cap.cfg", 3600, ["refused", "fd_reused", "closed_with_inflight", "error_400"]),
    # liveness under weak fairness: everything sent is answered, received, and the system rests
    "srv_live": ("MC_Server.tla", "MC_Server_live.cfg", 1200, ["interim_sent", "pipelined_yield"]),
    # write side: every interleaving of <= 4 enqueues with every stream outcome per write
    "mc_write": ("MC_Write.tla", "MC_Write.cfg", 600, ["short_write", "two_in_flight", "failure_with_queue", "invalid_write", "all_written", "cleared_mid_response"]),
    # algebraic facts of the function-level operators on enumerated domains
    "mc_fn_quick": ("MC_Fn.tla", "MC_Fn_quick.cfg", 1800, ["oneshot_accepts", "conn_one_clean", "hdr_fatal", "hdr_lastwins", "abs_uri", "route_dup", "route_hit"]),
    "mc_fn": ("MC_Fn.tla", "MC_Fn_thorough.cfg", 3600, ["oneshot_accepts", "conn_one_clean", "hdr_fatal", "hdr_lastwins", "abs_uri", "route_dup", "route_hit"]),
    # response builder as a state machine: all versions x codes x <= 3 setter calls
    "mc_resp": ("MC_Resp.tla", "MC_Resp.cfg", 900, ["no_length_100", "body_after_204", "crlf_body", "length_removed", "allow_two", "encoding_with_length"]),
    # liveness with a rogue client under strong fairness: the witness is always served (slow: ~3.5 min)
    "srv_livew": ("MC_Server.tla", "MC_Server_livew.cfg", 3600, []),
    # guided sender, 5 lines out of 10 templates: a complete Expect flow (request line, Content-Length,
    # Expect, blank line, body) under every segmentation
    "conn_guided5": ("MC_Conn.tla", "MC_Conn_guided5.cfg", 7200, ["body_delivered", "continue", "size_limit", "pipelined", "partial_body"]),
    # free sender (any template after any), 4 lines out of 12 templates
    "conn_free4": ("MC_Conn.tla", "MC_Conn_free4.cfg", 7200, ["bad_method", "bad_format", "cr_lf_split", "body_delivered"]),
    # descriptors passed to the server over the socket: conservation / ownership through reads, yields, 400s, closes, sweeps
    "srv_fdsq": ("MC_Server.tla", "MC_Server_fdsq.cfg", 1200, ["files_yielded", "files_on_closed_conn", "files_glued_read", "discard_on_error", "fd_reused", "closed_with_inflight"]),
    "srv_fds": ("MC_Server.tla", "MC_Server_fds.cfg", 3600, ["files_yielded", "files_on_closed_conn", "files_glued_read", "discard_on_error", "fd_reused", "pipelined_yield"]),
    # descriptors arriving with reads (C12)
    "conn_files": ("MC_Conn.tla", "MC_Conn_files.cfg", 1800, ["files_delivered", "body_delivered", "pipelined", "two_queued_with_files"]),
}

# ---------------------------------------------------------------------------
# connection-level properties
# ---------------------------------------------------------------------------
def short(v, n=48):
    """Abbreviates long arrays in a sample."""
    if isinstance(v, list):
        if len(v) > n and all(isinstance(x, int) for x in v):
            return v[:n] + ["...(%d more)" % (len(v) - n)]
        return [short(x, n) for x in v[:12]] + (["...(%d more)" % (len(v) - 12)] if len(v) > 12 else [])
    if isinstance(v, dict):
        return {k: short(x, n) for k, x in v.items() if k != "digest"}
    return v

def ascii_preview(bs):
    return "".join(chr(b) if 32 <= b < 127 else {13: "\\r", 10: "\\n"}.get(b, "\\x%02x" % b) for b in bs[:200])

def run_events(trace_path):
    """Yields (run_id, note, [events]) per run of a connection-level trace."""
    cur, rid, note = [], None, ""
    with open(trace_path) as f:
        for line in f:
            if not line.strip():
                continue
            e = json.loads(line)
            if e["e"] == "new":
                cur, rid, note = [e], e["run"], e.get("note", "")
            else:
                cur.append(e)
                if e["e"] == "end":
                    yield rid, note, cur
                    cur = []

def exec_conn(binpath, scripts_path, trace_path, timeout_s):
    """Runs the executor; on a crash/hang of the code under test, records the culprit script
    and continues with the remaining scripts.  Returns list of crash records."""
    crashes = []
    scripts = open(scripts_path).read().split("\n")
    scripts = [s for s in scripts if s.strip()]
    start = 0
    open(trace_path, "w").close()
    while start < len(scripts):
        part = os.path.join(V.WORK, "part.scripts")
        open(part, "w").write("\n".join(scripts[start:]) + "\n")
        tmp_trace = trace_path + ".part"
        try:
            with open(part) as fin, open(tmp_trace, "w") as fout:
                p = subprocess.run([binpath, "exec-conn", os.path.join(V.WORK, "fdtags")], stdin=fin, stdout=fout,
                                   stderr=subprocess.PIPE, timeout=timeout_s)
            rc, how = p.returncode, "exit"
        except subprocess.TimeoutExpired:
            rc, how = -1, "hang"
        done = 0
        with open(tmp_trace) as f, open(trace_path, "a") as out:
            buf = []
            for line in f:
                buf.append(line)
                if '"e":"end"' in line[-200:] or line.startswith('{"aborted"'):
                    out.writelines(buf)
                    buf = []
                    done += 1
        if rc == 0:
            break
        culprit = start + done
        if culprit >= len(scripts):
            break
        crashes.append({"how": how, "rc": rc, "script": json.loads(scripts[culprit])})
        start = culprit + 1
        if len(crashes) > 20:
            raise V.ToolError("executor keeps crashing")
    return crashes, len(scripts)

def conn_conformance(pid, tier, seed, kind, gen, tag):
    """gen scripts -> exec on the real code -> TLC validates.  Returns dict with results."""
    binpath = V.build_harness(kind)
    buf = 1024 if kind == "full" else 32
    scripts = os.path.join(V.WORK, "%s.scripts" % tag)
    trace = os.path.join(V.WORK, "%s.trace" % tag)
    with open(scripts, "w") as f:
        p = subprocess.run([binpath, "gen-conn", gen, tier, str(seed)], stdout=f, stderr=subprocess.PIPE, timeout=600)
    if p.returncode != 0:
        raise V.ToolError("generator %s failed: %s" % (gen, p.stderr.decode()[-500:]))
    t0 = time.time()
    crashes, nscripts = exec_conn(binpath, scripts, trace, 900)
    t_exec = time.time() - t0
    t0 = time.time()
    res = V.validate_trace("Trace_Conn.tla", TRACE_CFG % buf, trace, tag, timeout_s=1500)
    t_val = time.time() - t0
    errors = [r for r in res if r["error"]]
    if errors:
        raise V.ToolError("trace validation failed to run: %s (%s)" % (errors[0]["error"], errors[0]["shard"]))
    mism = [m for r in res for m in r["mismatches"]]
    events = sum(r["consumed"] for r in res)
    V.log("%s/%s: %d scripts, %d events validated (exec %.1fs, TLC %.1fs), %d mismatches, %d crashes"
          % (tag, kind, nscripts, events, t_exec, t_val, len(mism), len(crashes)))
    return {"kind": kind, "gen": gen, "scripts": scripts, "trace": trace, "mismatches": mism, "crashes": crashes,
            "events": events, "nscripts": nscripts, "states": sum(r["states"] for r in res)}

# ---------------------------------------------------------------------------
# specification -> implementation: TLC-generated behaviours replayed into the real connection
# ---------------------------------------------------------------------------
GEN_PROJ = {"C01": {"gen:res", "gen:popped"}, "C02": {"gen:res", "gen:popped"}, "C04": {"gen:res", "gen:popped"},
            "C11": {"gen:after-error"}, "C13": {"gen:cont"}}

def gen_conn_replay(pid, tier, seed):
    """tlc -simulate on Gen_Conn (BUF = 32) prints behaviours with the specification's expectations;
    they are executed read by read on the real HttpConnection (small build) and compared."""
    binpath = V.build_harness("small")
    n = 400 if tier == "quick" else 5000
    metadir = os.path.join(V.WORK, "tlc", "gen-" + pid)
    cmd = ["java", "-XX:+UseParallelGC", "-Xmx4g", "-Xss1g", "-cp", V.JAR, "tlc2.TLC", "-workers", "1", "-seed", str(seed),
           "-simulate", "num=%d" % n, "-depth", "80", "-metadir", metadir, "-noGenerateSpecTE",
           "-config", os.path.join(V.SPEC, "Gen_Conn.cfg"), os.path.join(V.SPEC, "Gen_Conn.tla")]
    t0 = time.time()
    pr = V.sh(cmd, timeout=1800, cwd=V.SPEC)
    out = pr.stdout.decode(errors="replace")
    import shutil
    shutil.rmtree(metadir, ignore_errors=True)
    if "Error:" in out and "REPLAY" not in out:
        raise V.ToolError("Gen_Conn simulation failed: " + out[-800:])
    if re.search(r"Invariant \w+ is violated", out):
        raise V.ToolError("Gen_Conn: the specification violates its own invariant during simulation")
    behaviours, seen = [], set()
    for m in re.finditer(r'^"REPLAY (.*)"$', out, re.M):
        raw = m.group(1)
        h = hashlib.sha256(raw.encode()).hexdigest()
        if h in seen:
            continue
        seen.add(h)
        behaviours.append(json.loads(json.loads('"' + raw + '"')))
    tag = "%s-gen" % pid
    scripts = os.path.join(V.WORK, tag + ".scripts")
    with open(scripts, "w") as f:
        for i, b in enumerate(behaviours):
            ev = []
            for a in b:
                if a["a"] == "read":
                    ev.append({"e": "read", "kind": "data", "bytes": a["bytes"], "fds": [], "auto": False})
                else:
                    ev.append({"e": "read", "kind": "err", "errno": 11})
            f.write(json.dumps({"run": i, "fam": 0, "cmp": [], "limit": [5], "ev": ev, "note": "gen", "drain_after_read": True}) + "\n")
    trace = os.path.join(V.WORK, tag + ".trace")
    crashes, _ = exec_conn(binpath, scripts, trace, 900)
    mism = []
    for rid, note, evs in run_events(trace):
        b = behaviours[rid]
        reads = []
        for e in evs:
            if e["e"] == "read":
                reads.append([e, []])
            elif e["e"] == "write" and reads:
                reads[-1][1].append(e)
        errored = False
        if len(reads) != len(b):
            mism.append({"run": rid, "fields": ["gen:res"], "detail": "number of reads differs"})
            continue
        for (e, writes), a in zip(reads, b):
            bad = set()
            if a["a"] == "empty":
                if e["res"]["k"] != "StreamReadError" or e["popped"]:
                    bad.add("gen:res")
            else:
                if e["bytes"] != a["bytes"]:
                    # the connection offered a smaller window than the machine allows (or none)
                    mism.append({"run": rid, "fields": ["gen:res", "gen:popped", "gen:after-error"] if errored else ["gen:res", "gen:popped"],
                                 "detail": {"expected_chunk": a["bytes"], "delivered": e["bytes"], "window": e.get("window")}})
                    break
                exp_err = a["err"]
                got = e["res"]["e"]["t"] if e["res"]["k"] == "ParseError" else ("none" if e["res"]["k"] == "Ok" else e["res"]["k"])
                if got != exp_err:
                    bad.add("gen:res")
                exp_reqs = [o for o in a["outs"] if o["k"] == "req"]
                if len(exp_reqs) != len(e["popped"]) or any(
                        (o["m"], o["uri"], o["cl"], o["body"], o["expect"], o["ncustom"]) !=
                        (q["m"], q["uri"], q["h"]["cl"], q["body"], q["h"]["expect"], len(q["h"]["custom"])) for o, q in zip(exp_reqs, e["popped"])):
                    bad.add("gen:popped")
                nconts = len([o for o in a["outs"] if o["k"] == "cont"])
                sent = [w for w in writes if w["sent"]]
                if len(sent) != nconts or any(bytes(w["sent"][:12]) not in (b"HTTP/1.1 100", b"HTTP/1.0 100") for w in sent):
                    bad.add("gen:cont")
            if errored and bad & {"gen:res", "gen:popped"}:
                bad.add("gen:after-error")
            if a["a"] == "read" and a["err"] != "none":
                errored = True
            if bad:
                mism.append({"run": rid, "fields": sorted(bad), "detail": {"expected": a, "got": short(e)}})
                break
    V.log("%s: %d TLC-generated behaviours replayed on the real connection (TLC %.0fs), %d mismatches, %d crashes" % (tag, len(behaviours), time.time() - t0, len(mism), len(crashes)))
    return {"behaviours": len(behaviours), "scripts": scripts, "mismatches": mism, "crashes": crashes, "reads": sum(len(b) for b in behaviours)}


# ---------------------------------------------------------------------------
# specification -> implementation, write side: EVERY history of <= HistMax calls of Gen_Write
# ---------------------------------------------------------------------------
GW_RESP = {1: {"v": "1.1", "code": 204, "ops": []},
           2: {"v": "1.0", "code": 200, "ops": [{"op": "body", "bytes": [65 + (i % 26) for i in range(120)]}]},
           3: {"v": "1.1", "code": 404, "ops": [{"op": "depr"}, {"op": "body", "bytes": [97 + (i % 26) for i in range(700)]}]}}

def gen_write_replay(pid, tier, seed):
    """TLC model-checks Gen_Write (the history of calls is a variable, so every distinct history of at most
    HistMax calls is a state) and prints each history with the result the specification predicts for every
    call; all of them are executed on the real HttpConnection (abstract lengths -> real responses, 'accept j
    of r' -> a real short write) and (a) compared call by call with TLC's predictions, (b) validated byte for
    byte by Trace_Conn."""
    binpath = V.build_harness("full")
    depth, maxlen = (6, 2) if tier == "quick" else (7, 2)
    cfg = os.path.join(V.WORK, "genwrite-%s.cfg" % pid)
    txt = open(os.path.join(V.SPEC, "Gen_Write.cfg")).read()
    txt = re.sub(r"HistMax = \d+", "HistMax = %d" % depth, txt)
    txt = re.sub(r"MaxLen = \d+", "MaxLen = %d" % maxlen, txt)
    open(cfg, "w").write(txt)
    metadir = os.path.join(V.WORK, "tlc", "genwrite-" + pid)
    outp = os.path.join(V.WORK, "genwrite-%s.out" % pid)
    t0 = time.time()
    with open(outp, "w") as fo:
        V.sh(V.tlc_cmd(os.path.join(V.SPEC, "Gen_Write.tla"), cfg, metadir, 8), timeout=3600, cwd=V.SPEC, stdout=fo)
    out = open(outp).read()
    os.remove(outp)
    import shutil
    shutil.rmtree(metadir, ignore_errors=True)
    if "Model checking completed. No error has been found." not in out:
        raise V.ToolError("Gen_Write did not complete: " + out[-600:])
    hists = []
    for m in re.finditer(r'^"REPLAY (.*)"$', out, re.M):
        hists.append(json.loads(json.loads('"' + m.group(1) + '"')))
    if not hists:
        raise V.ToolError("Gen_Write produced no history")
    tag = "%s-genwrite" % pid
    scripts = os.path.join(V.WORK, tag + ".scripts")
    with open(scripts, "w") as f:
        for i, h in enumerate(hists):
            ev = []
            for k, a in enumerate(h):
                if a["e"] == "enq":
                    ev.append({"e": "enq", "resp": GW_RESP[a["n"]]})
                elif a["e"] == "clear":
                    ev.append({"e": "clear"})
                elif a["k"] == "accept":
                    ev.append({"e": "write", "o": {"k": "acceptabs", "j": a["j"], "r": a["r"]}})
                elif a["k"] == "error":
                    ev.append({"e": "write", "o": {"k": "eagain" if (i + k) % 2 else "epipe"}})
                else:
                    ev.append({"e": "write", "o": {"k": a["k"]}})
            f.write(json.dumps({"run": i, "fam": 0, "cmp": ["wres", "calls", "sent", "pending", "offered"], "limit": [5, 1, 2, 0, 0],
                                "ev": ev, "note": "genwrite"}) + "\n")
    trace = os.path.join(V.WORK, tag + ".trace")
    crashes, _ = exec_conn(binpath, scripts, trace, 1800)
    mism = []
    for rid, note, evs in run_events(trace):
        h = hists[rid]
        calls = [e for e in evs if e["e"] in ("enq", "write", "clear")]
        if len(calls) != len(h):
            mism.append({"run": rid, "fields": ["gen:write"], "detail": "number of calls differs"})
            continue
        for k, (e, a) in enumerate(zip(calls, h)):
            if a["e"] != "write":
                continue
            exp_all = a["sent"] == a["r"] and a["sent"] > 0
            got_all = len(e["sent"]) == e["offered"] and e["offered"] > 0
            if (e["res"]["k"] != a["res"] or e["calls"] != a["calls"] or e["pending"] != a["pending"]
                    or (a["sent"] == 0) != (len(e["sent"]) == 0) or exp_all != got_all):
                mism.append({"run": rid, "fields": ["gen:write"], "detail": {"call": k, "expected": a, "got": short(e)}})
                break
    res = V.validate_trace("Trace_Conn.tla", TRACE_CFG % 1024, trace, tag, timeout_s=3000)
    errors = [r for r in res if r["error"]]
    if errors:
        raise V.ToolError("trace validation failed to run: %s (%s)" % (errors[0]["error"], errors[0]["shard"]))
    tm = [m for r in res for m in r["mismatches"]]
    events = sum(r["consumed"] for r in res)
    V.log("%s: every history of %d calls of Gen_Write (MaxLen %d): %d histories replayed on the real connection, %d events validated (%.0fs), %d+%d mismatches, %d crashes"
          % (tag, depth, maxlen, len(hists), events, time.time() - t0, len(mism), len(tm), len(crashes)))
    return {"histories": len(hists), "depth": depth, "maxlen": maxlen, "scripts": scripts, "trace": trace, "mismatches": mism, "trace_mismatches": tm,
            "crashes": crashes, "events": events, "states": sum(r["states"] for r in res)}

# ---------------------------------------------------------------------------
# binding self-test: corrupt ONE logged observable of a recorded trace and require TLC to object
# ---------------------------------------------------------------------------
def _corrupt(level, ev, cmp):
    """Returns a description if the event was corrupted in place, else None."""
    e = ev.get("e")
    if level == "conn":
        if e == "read" and "res" in cmp and ev.get("kind") == "data":
            ev["res"]["k"] = "ConnectionClosed" if ev["res"]["k"] == "Ok" else "Ok"
            return "read.res.k"
        if e == "read" and "files" in cmp and ev.get("popped"):
            ev["popped"][0]["files"] = ev["popped"][0]["files"] + [424242]
            return "read.popped[0].files"
        if e == "write" and ("sent" in cmp or "wres" in cmp) and ev.get("calls") == 1 and ev.get("sent"):
            ev["sent"][0] = (ev["sent"][0] + 1) % 256
            return "write.sent[0]"
        if e == "read" and "recvs" in cmp:
            ev["recvs"] = 2
            return "read.recvs"
        if e == "end" and "fam" in ev and ev.get("fam"):
            return None
    if level == "fn":
        o = ev.get("out") or {}
        if e in ("method", "version", "media") and "res" in o:
            o["res"] = "bad" if o["res"] != "bad" else "GET"
            return e + ".res"
        if e == "hline" and "h" in o:
            o["h"]["expect"] = not o["h"]["expect"]
            return "hline.h.expect"
        if e == "resp" and o.get("whole"):
            o["whole"][0] = (o["whole"][0] + 1) % 256
            return "resp.whole[0]"
        if e == "router" and o.get("added"):
            o["added"][0] = not o["added"][0]
            return "router.added[0]"
        if e == "oneshot" and "one" in o:
            o["one"]["ok"] = not o["one"]["ok"]
            return "oneshot.one.ok"
        if e == "abspath":
            o["ok"] = not o["ok"]
            return "abspath.ok"
        if e == "status" and o.get("raw"):
            o["raw"][0] = 57
            return "status.raw[0]"
        if e == "enc" and "res" in o:
            o["res"]["k"] = "fatal" if o["res"]["k"] == "ok" else "ok"
            return "enc.res.k"
        if e == "hblock":
            o["ok"] = not o["ok"]
            return "hblock.ok"
    if level == "srv":
        if e == "recv" and ev.get("state") == "data" and ev.get("bytes"):
            ev["bytes"][0] = (ev["bytes"][0] + 1) % 256
            return "recv.bytes[0]"
    return None

def binding_selftest(level, module, cfg_text, trace, tag, boundary):
    """Copies the first runs of a recorded trace, corrupts one observable, and checks that the trace
    specification reports a mismatch (and that the uncorrupted copy is accepted)."""
    lines, cmp, done, what, armed = [], set(), False, None, True
    with open(trace) as f:
        for i, line in enumerate(f):
            if i > 4000:
                break
            if not line.strip():
                continue
            ev = json.loads(line)
            if ev.get("e") == "new":
                cmp = set(ev.get("cmp") or [])
                armed = "c11" not in cmp
                if done and len(lines) > 50:
                    break
            if ev.get("e") == "reset" and done and len(lines) > 50:
                break
            if not done and (level != "conn" or armed):
                what = _corrupt(level, ev, cmp)
                if what:
                    done = True
                    what = "%s (line %d)" % (what, len(lines) + 1)
            if level == "conn" and ev.get("e") == "read" and ev["res"]["k"] == "ParseError":
                armed = True          # C11 mode compares only after the implementation's first error
            lines.append(json.dumps(ev))
    # keep whole runs / histories only
    while lines and json.loads(lines[-1]).get("e") not in ("end", "endhist") and level != "fn":
        lines.pop()
    if not done or not lines:
        return {"performed": False, "reason": "no corruptible observable in the first events"}
    path = os.path.join(V.WORK, tag + ".selftest.ndjson")
    open(path, "w").write("\n".join(lines) + "\n")
    res = V.validate_trace(module, cfg_text, path, tag + "-selftest", nshards=1, boundary=boundary)
    detected = sum(len(r["mismatches"]) for r in res) > 0
    if any(r["error"] for r in res):
        raise V.ToolError("binding self-test could not be validated: %s" % [r["error"] for r in res if r["error"]][0])
    if not detected:
        raise V.ToolError("binding self-test FAILED: corrupting %s was not noticed by %s" % (what, module))
    return {"performed": True, "corrupted": what, "events": len(lines), "detected": True}

def load_script(scripts_path, run):
    with open(scripts_path) as f:
        for i, line in enumerate(f):
            if i == run:
                return json.loads(line)
    return None

# which mismatch fields belong to which property's projection (others are out_of_projection)
CONN_PROJ = {
    "C01": {"family", "popped", "res", "whole"},
    "C02": {"res", "popped", "whole"},
    "C03": {"nopanic", "recvs", "calls", "window", "harness"},
    "C04": {"res", "popped", "whole", "pending"},
    "C06": {"wres", "calls", "sent", "pending", "offered"},
    # C11 is judged relationally (c11rel: after-error connection vs a new connection on the same input)
    "C11": {"c11rel", "leak"},
    "C12": {"files_rel", "files_def", "leak"},      # relational: judged on the implementation's own completion events
    "C13": {"sent", "pending", "wres", "popped"},
}

def nontrivial_conn(pid, evs):
    """Does this run reach the property's interesting region?  (rule text in RULES)"""
    reads = [e for e in evs if e["e"] == "read"]
    writes = [e for e in evs if e["e"] == "write"]
    if pid == "C01":
        return len([r for r in reads if r["kind"] == "data"]) >= 2
    if pid == "C02":
        return any(r["res"]["k"] == "ParseError" or r["popped"] for r in reads)
    if pid == "C03":
        return len(reads) + len(writes) >= 2
    if pid == "C04":
        return any(r["res"]["e"]["t"] in ("SizeLimitExceeded", "InvalidRequest", "H.SizeLimitExceeded") or r["popped"] for r in reads)
    if pid == "C06":
        return any(w["o"]["k"] != "accept" or (w["calls"] == 1 and len(w["sent"]) < w["offered"]) for w in writes)
    if pid == "C11":
        errs = [i for i, r in enumerate(reads) if r["res"]["k"] == "ParseError"]
        return bool(errs) and errs[0] < len(reads) - 1
    if pid == "C12":
        return any(r.get("fds") for r in reads)
    if pid == "C13":
        return any(w["sent"] for w in writes)
    return True

RULES = {
    "C01": "one case = (stream, segmentation); non-trivial = the stream is delivered in >= 2 data reads; distinct by hash of the script",
    "C02": "one case = (request from the grammar or one single-point corruption, segmentation); non-trivial = at least one request delivered or one parse error reported; distinct by hash of the script",
    "C03": "one case = (byte string / call sequence, schedule); non-trivial = at least two calls on the connection; distinct by hash of the script",
    "C04": "one case = (limit, declared length or line length/offset, segmentation); non-trivial = a limit error raised or a request delivered; distinct by hash of the script",
    "C06": "one case = (responses, enqueue/write interleaving, outcome per write); non-trivial = at least one short write, EINTR, zero or error outcome; distinct by hash of the script",
    "C11": "one case = (error-inducing prefix A, continuation B, segmentation); non-trivial = a parse error followed by at least one more read; distinct by hash of the script",
    "C12": "one case = (stream, segmentation, assignment of descriptors to reads); non-trivial = at least one descriptor passed; distinct by hash of the script",
    "C13": "one case = (stream with/without Expect, segmentation); non-trivial = at least one interim or other response byte written; distinct by hash of the script",
}

def evidence_from_trace(pid, traces):
    evals, distinct, samples = 0, set(), []
    for tr in traces:
        for rid, note, evs in run_events(tr):
            evals += 1
            if nontrivial_conn(pid, evs):
                h = hashlib.sha256(json.dumps([(e.get("bytes"), e.get("kind"), e.get("o"), e.get("ser"), e.get("fds")) for e in evs], sort_keys=True).encode()).hexdigest()
                if h not in distinct and len(samples) < 3:
                    s = short(evs)
                    for e in s:
                        if isinstance(e, dict) and "bytes" in e and e["e"] == "read":
                            e["ascii"] = ascii_preview([b for b in e["bytes"] if isinstance(b, int)])
                    samples.append({"note": note, "events": s})
                distinct.add(h)
    return evals, len(distinct), samples

def conn_property(pid, tier, seed, models, drivers, assumptions, design_ref, extra_fn=(), extra_srv=(), gen_replay=False, gen_write=False):
    t0 = time.time()
    known = [k for k in V.load_known() if k["property"] == pid]
    violations, known_hits, oop = [], [], 0
    # 1. the property on the specification
    mres = []
    for mname in models:
        module, cfg, tmo, need = MODELS[mname]
        r = V.run_model(mname, module, cfg, tmo, need=need)
        mres.append(r)
        if r["violated"]:
            path = V.save_replay(pid, {"property": pid, "level": "model", "model": mname, "violated": r["violated"],
                                       "log": "work/tlc-%s.log" % mname})
            violations.append(("model:%s:%s" % (mname, r["violated"]), path))
    # 2. the binding: traces of the real code validated against the specification
    cres = []
    for i, (kind, gen) in enumerate(drivers):
        cres.append(conn_conformance(pid, tier, seed, kind, gen, "%s-%s-%d" % (pid, kind, i)))
    selftest = None
    if cres and not any(c["mismatches"] for c in cres):
        c0 = cres[0]
        selftest = binding_selftest("conn", "Trace_Conn.tla", TRACE_CFG % (1024 if c0["kind"] == "full" else 32), c0["trace"], pid, '"e":"new"')
    proj = CONN_PROJ[pid]
    for cr in cres:
        seen_runs = set()
        for m in cr["mismatches"]:
            fields = set(m.get("fields", []))
            mine = fields & proj
            if not mine:
                oop += 1
                continue
            run = m.get("run")
            if run in seen_runs:
                continue
            seen_runs.add(run)
            script = load_script(cr["scripts"], run)
            sig = "conn|%s|%s|%s" % (cr["kind"], ",".join(sorted(mine)), (script or {}).get("note", ""))
            path = V.save_replay(pid, {"property": pid, "level": "conn", "build": cr["kind"], "script": script,
                                       "signature": sig, "mismatch": m})
            hit = [k for k in known if re.search(k["signature"], sig)]
            if hit:
                known_hits.append((hit[0], sig))
            else:
                violations.append((sig, path))
        for c in cr["crashes"]:
            sig = "conn|%s|crash:%s|%s" % (cr["kind"], c["how"], c["script"].get("note", ""))
            if pid == "C03":
                path = V.save_replay(pid, {"property": pid, "level": "conn", "build": cr["kind"], "script": c["script"],
                                           "signature": sig, "mismatch": {"crash": c["how"], "rc": c["rc"]}})
                violations.append((sig, path))
            else:
                oop += 1
    evals, distinct, samples = evidence_from_trace(pid, [c["trace"] for c in cres])
    fres = []
    for i, g in enumerate(extra_fn):
        fr = fn_conformance(pid, tier, seed, g, "%s-fn-%d" % (pid, i))
        fres.append(fr)
        evals += fr["events"]
        distinct += fr["events"]
        for m in fr["mismatches"]:
            if set(m.get("fields", [])) & FN_PROJ[pid]:
                case = json.loads(open(fr["cases"]).read().split("\n")[m["id"]])
                sig = "fn|%s|%s" % (case["e"], ",".join(m["fields"]))
                violations.append((sig, V.save_replay(pid, {"property": pid, "level": "fn", "case": case, "signature": sig, "mismatch": m})))
            else:
                oop += 1
        for c in fr["crashes"]:
            sig = "fn|%s|crash" % c["case"].get("e")
            violations.append((sig, V.save_replay(pid, {"property": pid, "level": "fn", "case": c["case"], "signature": sig, "mismatch": {"crash": c["rc"]}})))
    gres = None
    if gen_replay:
        gres = gen_conn_replay(pid, tier, seed)
        evals += gres["behaviours"]
        distinct += gres["behaviours"]
        seen_runs = set()
        for m in gres["mismatches"]:
            mine = set(m["fields"]) & GEN_PROJ[pid]
            if not mine:
                oop += 1
                continue
            if m["run"] in seen_runs:
                continue
            seen_runs.add(m["run"])
            script = load_script(gres["scripts"], m["run"])
            sig = "gen|small|%s" % ",".join(sorted(mine))
            violations.append((sig, V.save_replay(pid, {"property": pid, "level": "conn", "build": "small", "script": script, "signature": sig, "mismatch": m})))
    gwres = None
    if gen_write:
        gwres = gen_write_replay(pid, tier, seed)
        evals += gwres["histories"]
        distinct += gwres["histories"]
        seen_runs = set()
        for m in gwres["mismatches"] + gwres["trace_mismatches"]:
            fields = set(m.get("fields", []))
            mine = fields & (proj | {"gen:write"})
            if not mine:
                oop += 1
                continue
            if m.get("run") in seen_runs:
                continue
            seen_runs.add(m.get("run"))
            script = load_script(gwres["scripts"], m.get("run"))
            sig = "genwrite|full|%s" % ",".join(sorted(mine))
            violations.append((sig, V.save_replay(pid, {"property": pid, "level": "conn", "build": "full", "script": script, "signature": sig, "mismatch": m})))
        for c in gwres["crashes"]:
            oop += 1
    sres = []
    for i, (kind, domain, nq, nt) in enumerate(extra_srv):
        if kind == "gen":
            sr = gen_srv_replay(pid, tier, seed, domain)
        else:
            sr = srv_conformance(pid, tier, seed, kind, domain, nq if tier == "quick" else nt, "%s-srv-%s-%d" % (pid, kind, i))
        sres.append(sr)
        if sr["crashes"]:
            raise V.ToolError("server driver %s in domain %s" % (sr["crashes"][0]["how"], sr["domain"]))
        bad = by_history(sr["mismatches"], SRV_PROJ[pid])
        for hid, evs in hist_events(sr["trace"]):
            evals += 1
            distinct += 1
            if hid in bad:
                m = bad[hid]
                sig = "srv|%s|%s|%s" % (sr["kind"], sr["domain"], m.get("kind", "?"))
                if re.search(SRV_PROJ[pid], m.get("kind", "?")):
                    violations.append((sig, V.save_replay(pid, {"property": pid, "level": "srv", "build": sr["kind"], "domain": sr["domain"],
                                                               "signature": sig, "steps": [dict(e) for e in evs], "mismatch": m})))
                else:
                    oop += 1
    cov = {
        "states": sum(r["distinct"] for r in mres) + sum(c["states"] for c in cres) + sum(s["states"] for s in sres),
        "transitions": sum(r["states_generated"] for r in mres) + sum(c["events"] for c in cres) + sum(s["events"] for s in sres),
        "traces_validated_against_impl": evals,
        "samples": samples,
        "evaluations": evals,
        "distinct_nontrivial": distinct,
        "spec_to_impl": ({"tlc_generated_behaviours_replayed": gres["behaviours"], "reads": gres["reads"], "mismatches": len(gres["mismatches"])} if gres else None),
        "spec_to_impl_write": ({"every_history_of_calls_up_to": gwres["depth"], "abstract_response_lengths": gwres["maxlen"], "histories_replayed": gwres["histories"],
                                "trace_events_validated": gwres["events"], "mismatches": len(gwres["mismatches"]) + len(gwres["trace_mismatches"])} if gwres else None),
        "server_histories": [{"build": s["kind"], "domain": s["domain"], "trace_events_validated": s["events"], "divergent_histories": len(s["mismatches"])} for s in sres],
        "rule": RULES[pid],
        "exhaustive": False,
        "models": [{"name": r["name"], "cfg": r["cfg"], "distinct_states": r["distinct"], "states_generated": r["states_generated"],
                    "depth": r["depth"], "witnesses_reached": r["witnesses"], "reused_from_cache": r.get("cached", False), "wall_s": r.get("wall_s")} for r in mres],
        "conformance": [{"build": c["kind"], "generator": c["gen"], "scripts": c["nscripts"], "trace_events_validated": c["events"],
                         "mismatches": len(c["mismatches"]), "crashes": len(c["crashes"])} for c in cres]
                       + [{"generator": "fn:" + f["gen"], "cases": f["ncases"], "validated": f["events"], "mismatches": len(f["mismatches"]), "crashes": len(f["crashes"])} for f in fres],
        "out_of_projection": oop,
        "known_findings_hit": len(known_hits),
        "binding_selftest": selftest,
        "design_ref": design_ref,
    }
    V.write_evidence(pid, tier, seed, cov, time.time() - t0, len(violations), assumptions)
    for k, sig in known_hits[:10]:
        print("KNOWN-FINDING: property=%s %s [%s]" % (pid, k["text"], sig))
    if violations:
        # report a handful; the first is the canonical one
        for sig, path in violations[:5]:
            print("VIOLATION property=%s replay=%s" % (pid, path))
            V.log("  signature:", sig)
        return 1
    print("OK property=%s tier=%s evaluations=%d distinct_nontrivial=%d wall=%.0fs" % (pid, tier, evals, distinct, time.time() - t0))
    return 0

CONN_ASSUME = [
    "TLC and the CommunityModules Json/IOUtils modules are correct",
    "the scripted stream of the harness delivers exactly the logged bytes/descriptors and logs every call it receives",
    "model-level results are exhaustive only within the constants of the cfg files (BUF = 32, template lines, bounded counts)",
    "code-level results hold for the inputs driven; traces are judged on API-visible observables only",
]

def conn_models(tier, extra=()):
    return (["conn_quick"] if tier == "quick" else ["conn_guided4", "conn_free3", "conn_guided5", "conn_free4"]) + list(extra)

TABLE = {
    "C01": lambda tier, seed: conn_property("C01", tier, seed, conn_models(tier), [("small", "C01"), ("full", "C01")], CONN_ASSUME, "DESIGN.md 6 C01", gen_replay=True),
    "C02": lambda tier, seed: conn_property("C02", tier, seed, conn_models(tier), [("full", "C02")], CONN_ASSUME, "DESIGN.md 6 C02", gen_replay=True),
    "C03": lambda tier, seed: conn_property("C03", tier, seed, conn_models(tier), [("full", "C03"), ("small", "C03")], CONN_ASSUME, "DESIGN.md 6 C03", extra_fn=["C03"]),
    "C04": lambda tier, seed: conn_property("C04", tier, seed, conn_models(tier), [("full", "C04"), ("small", "C04")], CONN_ASSUME, "DESIGN.md 6 C04",
                                            extra_srv=[("full", "C04", 200, 2000)], gen_replay=True),
    "C06": lambda tier, seed: conn_property("C06", tier, seed, ["mc_write"], [("full", "C06")], CONN_ASSUME, "DESIGN.md 6 C06",
                                            extra_srv=[("full", "C07pipe", 150, 1500)], gen_write=True),
    "C11": lambda tier, seed: conn_property("C11", tier, seed, conn_models(tier), [("full", "C11"), ("small", "C11")], CONN_ASSUME, "DESIGN.md 6 C11",
                                            extra_srv=[("full", "C09", 150, 1500)], gen_replay=True),
    "C12": lambda tier, seed: conn_property("C12", tier, seed, ["conn_files", "srv_fdsq" if tier == "quick" else "srv_fds"], [("full", "C12")], CONN_ASSUME, "DESIGN.md 6 C12",
                                            extra_srv=[("small", "C12srv", 150, 1500), ("full", "C12srv", 100, 1000), ("gen", "Gen_Srv_fds.cfg", 0, 0)]),
    "C13": lambda tier, seed: conn_property("C13", tier, seed, conn_models(tier), [("full", "C13"), ("small", "C13")], CONN_ASSUME, "DESIGN.md 6 C13",
                                            extra_srv=[("full", "C08", 200, 2000)], gen_replay=True),
}

# ---------------------------------------------------------------------------
# server-level properties (closed loop over real sockets)
# ---------------------------------------------------------------------------
ABS_PROOF = [("server_abs", ["ServerAbs.tla", "ServerAbs_proofs.tla"], "ServerAbs_proofs.tla")]
# the epoll-interest core (C08: no parked output, no OUT interest without output; C09/C10: closed entries hold no output)
INTR_PROOF = [("server_intr", ["ServerIntr.tla", "ServerIntr_proofs.tla"], "ServerIntr_proofs.tla")]
def srv_cfg(kind):
    maxconn, buf = (10, 1024) if kind == "full" else (3, 32)
    return """SPECIFICATION Spec
CONSTANTS
  BUF = %d
  MaxConn = %d
  Clients = {%s}
  Fds = {%s}
INVARIANT SrvInv
POSTCONDITION Accepted
CHECK_DEADLOCK FALSE
""" % (buf, maxconn, ", ".join(str(i) for i in range(1, 15)), ", ".join(str(i) for i in range(3, 90)))

# first-divergence kinds that belong to each property's projection
SRV_PROJ = {
    # C07 is judged on the clients' own receipts (own:*) plus the mechanism-specific divergences
    "C07": r"^(own:|sweep:in-flight|token:|capacity:accepted|apierr:)",
    "C08": r"^(ready:|batch:|pollerr:|apierr:|bytes:missing|bytes:differ|yield:|write:|invariant|hang)",
    "C09": r"^(pollerr:|apierr:|ready:|sweep:dead|fds:count|batch:|yield:|bytes:missing|hang|own:closed-without-cause)",
    "C10": r"^(capacity:|fds:|sweep:|eof:|bytes:|pollerr:)",
    "C18": r"^(kill:|ready:|pollerr:|batch:|hang)",
    "C04": r"^(bytes:|yield:)",
    "C12": r"^(files:|fds:count)",
    "C06": r"^(bytes:differ|bytes:extra)",
    "C11": r"^(bytes:|yield:)",
    "C13": r"^(bytes:|yield:|ready:stall)",
}

def count_in_file(path, needle):
    n = 0
    try:
        with open(path) as f:
            for line in f:
                n += line.count(needle)
    except OSError:
        pass
    return n

def by_history(mismatches, proj):
    """history id -> the mismatch to judge: a history may carry two (its first divergence and the ownership
    judgement at its end); the one inside the property's projection wins, else the first."""
    out = {}
    for m in mismatches:
        if "hist" not in m:
            continue
        cur = out.get(m["hist"])
        if cur is None or (not re.search(proj, cur.get("kind", "?")) and re.search(proj, m.get("kind", "?"))):
            out[m["hist"]] = m
    return out

def hist_events(trace_path):
    cur, hid = [], None
    with open(trace_path) as f:
        for line in f:
            if not line.strip():
                continue
            e = json.loads(line)
            if e["e"] == "reset":
                cur, hid = [e], e["hist"]
            else:
                cur.append(e)
                if e["e"] == "endhist":
                    yield hid, cur
                    cur = []

def srv_conformance(pid, tier, seed, kind, domain, nhist, tag):
    binpath = V.build_harness(kind)
    trace = os.path.join(V.WORK, "%s.trace" % tag)
    sockdir = os.path.join(V.WORK, "sock")
    os.makedirs(sockdir, exist_ok=True)
    t0 = time.time()
    # several driver processes in parallel (each single-threaded), different seeds
    nproc = min(8, max(1, nhist // 50))
    per = (nhist + nproc - 1) // nproc
    procs = []
    for i in range(nproc):
        part = "%s.p%d" % (trace, i)
        f = open(part, "w")
        procs.append((subprocess.Popen([binpath, "srv", domain, str(seed * 1000 + i), str(per), sockdir], stdout=f, stderr=subprocess.PIPE), f, part))
    crashes = []
    with open(trace, "w") as out:
        hid = 0
        for pr, f, part in procs:
            hung = False
            try:
                _, err = pr.communicate(timeout=180 if tier == "quick" else 900)
            except subprocess.TimeoutExpired:
                pr.kill()
                pr.communicate()
                hung = True
            f.close()
            if hung or pr.returncode not in (0, None):
                # the unfinished history at the end of the part file is the culprit
                steps = []
                for line in open(part):
                    if '"e":"reset"' in line:
                        steps = []
                    if line.endswith("\n"):
                        try:
                            steps.append(json.loads(line))
                        except Exception:
                            pass
                    if '"e":"endhist"' in line:
                        steps = []
                crashes.append({"how": "hang" if hung else "exit %s" % pr.returncode, "steps": steps})
            # renumber histories so that ids are unique across parts; drop an unfinished tail
            buf = []
            for line in open(part):
                if '"e":"reset"' in line:
                    buf = []
                    hid += 1
                    line = re.sub(r'"hist":\d+', '"hist":%d' % hid, line, count=1)
                if '"e":"endhist"' in line:
                    line = re.sub(r'"hist":\d+', '"hist":%d' % hid, line, count=1)
                    buf.append(line)
                    out.writelines(buf)
                    buf = []
                else:
                    buf.append(line)
            os.remove(part)
    t_exec = time.time() - t0
    t0 = time.time()
    res = V.validate_trace("Trace_Srv.tla", srv_cfg(kind), trace, tag, timeout_s=1500, boundary='"e":"reset"')
    t_val = time.time() - t0
    errors = [r for r in res if r["error"]]
    if errors:
        raise V.ToolError("trace validation failed to run: %s (%s)" % (errors[0]["error"], errors[0]["shard"]))
    mism = [m for r in res for m in r["mismatches"]]
    events = sum(r["consumed"] for r in res)
    V.log("%s/%s/%s: %d histories requested, %d events validated (exec %.1fs, TLC %.1fs), %d divergent histories, %d crashes"
          % (tag, kind, domain, nhist, events, t_exec, t_val, len(mism), len(crashes)))
    return {"kind": kind, "domain": domain, "trace": trace, "mismatches": mism, "crashes": crashes, "events": events,
            "states": sum(r["states"] for r in res)}

def gen_srv_replay(pid, tier, seed, cfgname, depth=None):
    """Specification -> implementation at server level: Gen_Srv prints histories of harness steps; `mh srv-replay`
    executes them on the real server (small build) and Trace_Srv validates the recorded trace.
    depth=None: random behaviours (tlc -simulate).  depth=N: EVERY history of at most N harness steps of the
    configuration (TLC model checking with the history as a variable: exhaustive to that depth)."""
    binpath = V.build_harness("small")
    n = 150 if tier == "quick" else 3000
    metadir = os.path.join(V.WORK, "tlc", "gensrv-" + pid)
    os.makedirs(os.path.join(V.WORK, "tmp"), exist_ok=True)
    t0 = time.time()
    if depth is None:
        cmd = ["java", "-XX:+UseParallelGC", "-Xmx4g", "-Xss1g", "-cp", V.JAR, "tlc2.TLC", "-workers", "1", "-seed", str(seed),
               "-simulate", "num=%d" % n, "-depth", "140", "-metadir", metadir, "-noGenerateSpecTE",
               "-config", os.path.join(V.SPEC, cfgname), os.path.join(V.SPEC, "Gen_Srv.tla")]
        pr = V.sh(cmd, timeout=1800, cwd=V.SPEC)
        out = pr.stdout.decode(errors="replace")
    else:
        cfg = os.path.join(V.WORK, "gensrv-%s-d%d.cfg" % (pid, depth))
        open(cfg, "w").write(re.sub(r"HistMax = \d+", "HistMax = %d" % depth, open(os.path.join(V.SPEC, cfgname)).read()))
        outp = os.path.join(V.WORK, "gensrv-%s-d%d.out" % (pid, depth))
        with open(outp, "w") as fo:
            pr = V.sh(V.tlc_cmd(os.path.join(V.SPEC, "Gen_Srv.tla"), cfg, metadir, 8, extra=[]), timeout=3600, cwd=V.SPEC, stdout=fo)
        out = open(outp).read()
        os.remove(outp)
        if "Model checking completed. No error has been found." not in out:
            raise V.ToolError("Gen_Srv (exhaustive, depth %d) did not complete: %s" % (depth, out[-400:]))
    import shutil
    shutil.rmtree(metadir, ignore_errors=True)
    if re.search(r"Invariant \w+ is violated", out):
        raise V.ToolError("Gen_Srv: the specification violates its own invariant during simulation")
    seen, hists = set(), []
    for m in re.finditer(r'^"REPLAY (.*)"$', out, re.M):
        raw = m.group(1)
        h = hashlib.sha256(raw.encode()).hexdigest()
        if h in seen:
            continue
        seen.add(h)
        hists.append(json.loads(json.loads('"' + raw + '"')))
    if not hists:
        raise V.ToolError("Gen_Srv produced no behaviour: " + out[-600:])
    tag = "%s-gensrv%s" % (pid, "" if depth is None else "-" + cfgname.replace("Gen_Srv_", "").replace(".cfg", ""))
    steps_file = os.path.join(V.WORK, tag + ".ndjson")
    with open(steps_file, "w") as f:
        for i, h in enumerate(hists):
            head = {"e": "reset", "hist": i + 1, "nclients": 4, "limit": [2, 0], "kill": True}
            f.write(json.dumps([head] + h + [{"e": "recv", "c": c} for c in (1, 2, 3, 4)] + [{"e": "poll"}, {"e": "fdcount"}]) + "\n")
    trace = os.path.join(V.WORK, tag + ".trace")
    sockdir = os.path.join(V.WORK, "sock")
    os.makedirs(sockdir, exist_ok=True)
    # several single-threaded drivers in parallel, each on a slice of the histories
    lines = open(steps_file).read().split("\n")
    lines = [l for l in lines if l.strip()]
    nproc = min(8, max(1, len(lines) // 2000))
    procs = []
    for i in range(nproc):
        part = "%s.p%d.ndjson" % (steps_file, i)
        open(part, "w").write("\n".join(lines[i::nproc]) + "\n")
        fo = open("%s.p%d" % (trace, i), "w")
        procs.append((subprocess.Popen([binpath, "srv-replay", part, sockdir], stdout=fo, stderr=subprocess.PIPE), fo, part))
    crashes = []
    with open(trace, "w") as fout:
        for i, (p_, fo, part) in enumerate(procs):
            hung = False
            try:
                _, err = p_.communicate(timeout=300 if tier == "quick" else 1800)
            except subprocess.TimeoutExpired:
                p_.kill()
                p_.communicate()
                hung = True
            fo.close()
            tp = "%s.p%d" % (trace, i)
            # complete histories go to the trace; an unfinished tail is the culprit of a hang / crash
            buf = []
            for line in open(tp):
                if '"e":"reset"' in line:
                    buf = []
                buf.append(line)
                if '"e":"endhist"' in line:
                    fout.writelines(buf)
                    buf = []
            if hung or p_.returncode != 0:
                steps = []
                for line in buf:
                    try:
                        steps.append(json.loads(line))
                    except Exception:
                        pass
                crashes.append({"how": "hang" if hung else "exit %s" % p_.returncode, "steps": steps})
            os.remove(tp)
            os.remove(part)
    res = V.validate_trace("Trace_Srv.tla", srv_cfg("small"), trace, tag, timeout_s=3000, boundary='"e":"reset"')
    errors = [r for r in res if r["error"]]
    if errors:
        raise V.ToolError("trace validation failed to run: %s (%s)" % (errors[0]["error"], errors[0]["shard"]))
    mism = [m for r in res for m in r["mismatches"]]
    events = sum(r["consumed"] for r in res)
    V.log("%s: %d TLC-generated histories replayed on the real server, %d events validated (%.0fs), %d divergent" % (tag, len(hists), events, time.time() - t0, len(mism)))
    return {"kind": "small", "domain": "tlc-generated:" + cfgname + ("" if depth is None else ":every-history-to-depth-%d" % depth), "trace": trace, "mismatches": mism, "crashes": crashes, "events": events,
            "states": sum(r["states"] for r in res)}

def nontrivial_srv(pid, evs):
    polls = [e for e in evs if e["e"] == "poll" and e.get("called")]
    if pid == "C07":
        return any(e["e"] in ("close", "shutwr", "shutrd") for e in evs) and any(e["e"] == "respond" for e in evs)
    if pid == "C08":
        return any(len(p["hooks"][0]["ev"]) >= 2 for p in polls if p.get("hooks")) or any(e["e"] == "respond" for e in evs)
    if pid == "C09":
        return any(e["e"] in ("close", "shutwr", "shutrd") for e in evs)
    if pid == "C10":
        return any(h.get("h") == "refuse" for p in polls for h in p.get("hooks", []))
    if pid == "C18":
        return any(e["e"] == "kill" or (e["e"] == "reset" and e.get("prekill")) for e in evs)
    return True

SRV_RULES = {
    "C07": "one case = one history over real sockets; non-trivial = a client closes/half-closes and the application responds in the same history; distinct by hash of the step sequence",
    "C08": "one case = one history of well-behaved clients; non-trivial = a batch with >= 2 events or at least one response; distinct by hash of the step sequence",
    "C09": "one case = one history with a witness and misbehaving clients; non-trivial = at least one close/shutdown by a client; distinct by hash of the step sequence",
    "C10": "one case = one history around the capacity limit; non-trivial = at least one connection refused with 503; distinct by hash of the step sequence",
    "C18": "one case = one history with the kill switch signalled at a random point; non-trivial = the signal was sent; distinct by hash of the step sequence",
}

def srv_property(pid, tier, seed, models, drivers, assumptions, design_ref, proofs=()):
    t0 = time.time()
    known = [k for k in V.load_known() if k["property"] == pid]
    violations, known_hits, oop = [], [], 0
    mres = []
    # 0. unbounded part: TLAPS proof of the inductive invariant of the abstract server (any number of
    #    clients / descriptors / capacity); the models below check that the detailed model refines it
    pres = []
    for (pname, modules, main) in proofs:
        pr = V.run_proof(pname, modules, main)
        pres.append(pr)
        if not pr["ok"]:
            path = V.save_replay(pid, {"property": pid, "level": "model", "model": pname, "violated": "%d unproved obligations" % pr["failed"],
                                       "log": "work/tlapm-%s.log" % pname})
            violations.append(("proof:%s" % pname, path))
    for mname in models:
        module, cfg, tmo, need = MODELS[mname]
        r = V.run_model(mname, module, cfg, tmo, need=need)
        mres.append(r)
        if r["violated"]:
            path = V.save_replay(pid, {"property": pid, "level": "model", "model": mname, "violated": r["violated"], "log": "work/tlc-%s.log" % mname})
            violations.append(("model:%s:%s" % (mname, r["violated"]), path))
    cres = []
    for i, (kind, domain, nq, nt) in enumerate(drivers):
        if kind == "gen":
            cres.append(gen_srv_replay(pid, tier, seed, domain))
        elif kind == "genx":
            if (nq if tier == "quick" else nt) > 0:
                cres.append(gen_srv_replay(pid, tier, seed, domain, depth=nq if tier == "quick" else nt))
        else:
            cres.append(srv_conformance(pid, tier, seed, kind, domain, nq if tier == "quick" else nt, "%s-%s-%d" % (pid, kind, i)))
    selftest = None
    if cres and not any(c["mismatches"] for c in cres):
        c0 = cres[0]
        selftest = binding_selftest("srv", "Trace_Srv.tla", srv_cfg(c0["kind"]), c0["trace"], pid, '"e":"reset"')
    evals, distinct, samples, total_div = 0, set(), [], 0
    for cr in cres:
        bad = by_history(cr["mismatches"], SRV_PROJ[pid])
        for hid, evs in hist_events(cr["trace"]):
            evals += 1
            h = hashlib.sha256(json.dumps([[e.get(k) for k in ("e", "c", "bytes", "tag", "state")] for e in evs]).encode()).hexdigest()
            if nontrivial_srv(pid, evs):
                if h not in distinct and len(samples) < 2:
                    samples.append({"domain": cr["domain"], "events": short(evs[:40])})
                distinct.add(h)
            if hid in bad:
                m = bad[hid]
                total_div += 1
                kind_ = m.get("kind", "?")
                sig = "srv|%s|%s|%s" % (cr["kind"], cr["domain"], kind_)
                if not re.search(SRV_PROJ[pid], kind_):
                    oop += 1
                    continue
                if pid == "C18":
                    # C18 speaks about polls after the signal; what diverges before it belongs to others
                    kills = [i for i, e in enumerate(evs) if e["e"] == "kill" or (e["e"] == "reset" and e.get("prekill"))]
                    if not kills or m.get("step", 0) < kills[0]:
                        oop += 1
                        continue
                hit = [k for k in known if re.search(k["signature"], sig)]
                if hit:
                    known_hits.append((hit[0], sig))
                    continue
                steps = [dict(e) for e in evs]
                path = V.save_replay(pid, {"property": pid, "level": "srv", "build": cr["kind"], "domain": cr["domain"],
                                           "signature": sig, "steps": steps, "mismatch": m})
                violations.append((sig, path))
        for c in cr["crashes"]:
            # a call of the server that never returns (or kills the driver) in the middle of a history
            sig = "srv|%s|%s|%s" % (cr["kind"], cr["domain"], "hang" if c["how"] == "hang" else "crash")
            if c["how"] == "hang" and re.search(SRV_PROJ[pid], "hang"):
                path = V.save_replay(pid, {"property": pid, "level": "srv", "build": cr["kind"], "domain": cr["domain"], "signature": sig,
                                           "steps": c["steps"], "mismatch": {"kind": "hang", "detail": "the driver blocked inside a call of the server (last step is the one after the last logged event)"}})
                violations.append((sig, path))
            else:
                raise V.ToolError("server driver %s in domain %s" % (c["how"], cr["domain"]))
    cov = {
        "states": sum(r["distinct"] for r in mres) + sum(c["states"] for c in cres),
        "transitions": sum(r["states_generated"] for r in mres) + sum(c["events"] for c in cres),
        "traces_validated_against_impl": evals - total_div,
        "samples": samples,
        "evaluations": evals,
        "distinct_nontrivial": len(distinct),
        "rule": SRV_RULES[pid],
        "proofs": [{"name": p["name"], "module": p["module"], "prover": "tlapm", "obligations_proved": p["obligations"] - p["failed"],
                    "obligations_failed": p["failed"], "reused_from_cache": p.get("cached", False)} for p in pres],
        "exhaustive": False,
        "models": [{"name": r["name"], "cfg": r["cfg"], "distinct_states": r["distinct"], "states_generated": r["states_generated"],
                    "depth": r["depth"], "witnesses_reached": r["witnesses"], "reused_from_cache": r.get("cached", False), "wall_s": r.get("wall_s")} for r in mres],
        "conformance": [{"build": c["kind"], "domain": c["domain"], "trace_events_validated": c["events"], "divergent_histories": len(c["mismatches"]),
                         # client actions performed INSIDE requests() calls (hook at_event) in the validated histories
                         "client_actions_inside_polls": count_in_file(c["trace"], '"h":"mid"')} for c in cres],
        "out_of_projection": oop,
        "known_findings_hit": len(known_hits),
        "binding_selftest": selftest,
        "design_ref": design_ref,
    }
    V.write_evidence(pid, tier, seed, cov, time.time() - t0, len(violations), assumptions)
    seen = set()
    for k, sig in known_hits:
        if k["text"] not in seen:
            print("KNOWN-FINDING: property=%s %s [%s]" % (pid, k["text"], sig))
            seen.add(k["text"])
    if violations:
        shown = set()
        for sig, path in violations:
            if sig in shown or len(shown) >= 5:
                continue
            shown.add(sig)
            print("VIOLATION property=%s replay=%s" % (pid, path))
            V.log("  signature:", sig)
        return 1
    print("OK property=%s tier=%s evaluations=%d distinct_nontrivial=%d out_of_projection=%d wall=%.0fs" % (pid, tier, evals, len(distinct), oop, time.time() - t0))
    return 0

SRV_ASSUME = [
    "TLC and the CommunityModules Json/IOUtils modules are correct",
    "Linux semantics of Unix stream sockets and epoll as measured in this sandbox (DESIGN 1, Kernel facts)",
    "the harness is single-threaded: nothing happens inside a requests() call except what the logged batch determines",
    "hooks (cfg micro_http_verif) report the epoll batch, accepted/removed descriptors and write results faithfully",
    "closed loop: the first divergence of a history decides; the rest of that history is not examined",
]

TABLE.update({
    "C07": lambda tier, seed: srv_property("C07", tier, seed, ["srv_quick", "srv_race", "srv_capq"] + (["srv_cap"] if tier == "thorough" else []), [("full", "C07", 300, 3000), ("small", "C07", 300, 3000), ("full", "C07pipe", 200, 2000), ("full", "C08big", 16, 48), ("small", "C09race", 150, 1500), ("gen", "Gen_Srv_rogue.cfg", 0, 0), ("genx", "Gen_Srv_exh.cfg", 9, 12), ("genx", "Gen_Srv_exh3.cfg", 0, 10), ("genx", "Gen_Srv_exh11.cfg", 0, 13), ("genx", "Gen_Srv_exhrace.cfg", 7, 10)], SRV_ASSUME, "DESIGN.md 6 C07", proofs=ABS_PROOF),
    "C09": lambda tier, seed: srv_property("C09", tier, seed, ["srv_quick", "srv_race", "srv_capq"] + (["srv_cap", "srv_livew"] if tier == "thorough" else []), [("full", "C09", 300, 3000), ("small", "C09", 200, 2000), ("small", "C10", 200, 2000), ("full", "C09slow", 40, 400), ("full", "C09race", 200, 2000), ("small", "C09race", 150, 1500), ("gen", "Gen_Srv_rogue.cfg", 0, 0), ("genx", "Gen_Srv_exh.cfg", 0, 12), ("genx", "Gen_Srv_exh8.cfg", 0, 14), ("genx", "Gen_Srv_exhrace.cfg", 0, 10)], SRV_ASSUME, "DESIGN.md 6 C09", proofs=INTR_PROOF),
    "C10": lambda tier, seed: srv_property("C10", tier, seed, ["srv_capq"] + (["srv_cap"] if tier == "thorough" else []), [("small", "C10", 300, 3000), ("full", "C10", 150, 1500)], SRV_ASSUME, "DESIGN.md 6 C10", proofs=ABS_PROOF),
    "C18": lambda tier, seed: srv_property("C18", tier, seed, ["srv_kill"], [("full", "C18", 300, 3000), ("small", "C18", 200, 2000), ("genx", "Gen_Srv_exhkill.cfg", 10, 13)], SRV_ASSUME, "DESIGN.md 6 C18"),
    "C08": lambda tier, seed: srv_property("C08", tier, seed, ["srv_quick", "srv_progs", "srv_live"], [("full", "C08", 300, 3000), ("small", "C08", 200, 2000), ("full", "C08big", 24, 400), ("gen", "Gen_Srv_good.cfg", 0, 0), ("genx", "Gen_Srv_exhgood.cfg", 11, 13)], SRV_ASSUME, "DESIGN.md 6 C08", proofs=INTR_PROOF),
})

# ---------------------------------------------------------------------------
# function-level properties
# ---------------------------------------------------------------------------
FN_CFG = """SPECIFICATION Spec
CONSTANTS
  BUF = 1024
POSTCONDITION Accepted
CHECK_DEADLOCK FALSE
"""
FN_PROJ = {
    "C03": {"panic"},
    "C05": {"bytes", "split", "accessors", "selfdelimiting", "panic"},
    "C14": {"one_ok", "one_req", "one_err", "agree_fwd", "agree_bwd", "panic"},
    "C15": {"results", "headers", "ok", "err", "res", "panic"},
    "C16": {"res", "raw", "ok", "path", "panic"},
    "C17": {"added", "invoked", "response", "panic"},
}
FN_RULES = {
    "C03": "one case = one byte string through one public parsing entry point; non-trivial = the string is non-empty; distinct by hash of (function, input)",
    "C05": "one case = (version, status, sequence of builder calls, sink sizes); non-trivial = at least one builder call; distinct by hash of the case",
    "C14": "one case = one byte slice through BOTH real parsers (plus optional max length); non-trivial = at least one of the two parsers accepts; distinct by hash of the slice",
    "C15": "one case = a header line list / header block / encoding value; non-trivial = contains a recognised header name or a fault; distinct by hash of the input",
    "C16": "one case = one byte string through one token/URI function; non-trivial = non-empty input; distinct by hash of (function, input)",
    "C17": "one case = (prefix, registration sequence, 8 requests); non-trivial = at least one route registered; distinct by hash of the case",
}

def fn_nontrivial(pid, ev):
    if pid == "C05":
        return len(ev["resp"]["ops"]) > 0
    if pid == "C14":
        o = ev.get("out") or {}
        return bool(o) and (o["one"]["ok"] or len(o["conn"]["popped"]) > 0)
    if pid == "C17":
        return len(ev["routes"]) > 0
    if pid == "C15":
        return True
    return len(ev.get("bytes", ev.get("uri", [1]))) > 0

def fn_conformance(pid, tier, seed, gen, tag):
    binpath = V.build_harness("full")
    cases = os.path.join(V.WORK, "%s.cases" % tag)
    trace = os.path.join(V.WORK, "%s.trace" % tag)
    with open(cases, "w") as f:
        p = subprocess.run([binpath, "gen-fn", gen, tier, str(seed)], stdout=f, stderr=subprocess.PIPE, timeout=900)
    if p.returncode != 0:
        raise V.ToolError("generator %s failed" % gen)
    t0 = time.time()
    crashes = []
    lines = [l for l in open(cases).read().split("\n") if l.strip()]
    start = 0
    open(trace, "w").close()
    while start < len(lines):
        part = os.path.join(V.WORK, "fnpart.cases")
        open(part, "w").write("\n".join(lines[start:]) + "\n")
        tmp = trace + ".part"
        try:
            with open(part) as fin, open(tmp, "w") as fout:
                pr = subprocess.run([binpath, "exec-fn"], stdin=fin, stdout=fout, stderr=subprocess.PIPE, timeout=900)
            rc = pr.returncode
        except subprocess.TimeoutExpired:
            rc = -1
        done = 0
        with open(tmp) as f, open(trace, "a") as out:
            for line in f:
                if line.endswith("\n"):
                    out.write(line)
                    done += 1
        if rc == 0:
            break
        culprit = start + done
        if culprit >= len(lines):
            break
        crashes.append({"rc": rc, "case": json.loads(lines[culprit])})
        start = culprit + 1
        if len(crashes) > 20:
            raise V.ToolError("fn executor keeps crashing")
    t_exec = time.time() - t0
    t0 = time.time()
    res = V.validate_trace("Trace_Fn.tla", FN_CFG, trace, tag, timeout_s=1500, boundary='"e":')
    errors = [r for r in res if r["error"]]
    if errors:
        raise V.ToolError("trace validation failed to run: %s (%s)" % (errors[0]["error"], errors[0]["shard"]))
    mism = [m for r in res for m in r["mismatches"]]
    events = sum(r["consumed"] for r in res)
    V.log("%s/%s: %d cases, %d validated (exec %.1fs, TLC %.1fs), %d mismatches, %d crashes" % (tag, gen, len(lines), events, t_exec, time.time() - t0, len(mism), len(crashes)))
    return {"gen": gen, "cases": cases, "trace": trace, "mismatches": mism, "crashes": crashes, "events": events, "ncases": len(lines),
            "states": sum(r["states"] for r in res)}

def fn_property(pid, tier, seed, models, gens, assumptions, design_ref, extra_conn=None):
    t0 = time.time()
    known = [k for k in V.load_known() if k["property"] == pid]
    violations, known_hits, oop = [], [], 0
    mres = []
    for mname in models:
        module, cfg, tmo, need = MODELS[mname]
        r = V.run_model(mname, module, cfg, tmo, need=need)
        mres.append(r)
        if r["violated"]:
            path = V.save_replay(pid, {"property": pid, "level": "model", "model": mname, "violated": r["violated"], "log": "work/tlc-%s.log" % mname})
            violations.append(("model:%s:%s" % (mname, r["violated"]), path))
    cres = [fn_conformance(pid, tier, seed, g, "%s-fn-%d" % (pid, i)) for i, g in enumerate(gens)]
    selftest = None
    if cres and not any(c["mismatches"] for c in cres):
        selftest = binding_selftest("fn", "Trace_Fn.tla", FN_CFG, cres[0]["trace"], pid, '"e":')
    proj = FN_PROJ[pid]
    evals, distinct, samples = 0, set(), []
    for cr in cres:
        byid = {}
        for m in cr["mismatches"]:
            mine = set(m.get("fields", [])) & proj
            if not mine:
                oop += 1
                continue
            if m["id"] in byid:
                continue
            byid[m["id"]] = (m, mine)
        caselines = None
        for cid, (m, mine) in list(byid.items())[:50]:
            if caselines is None:
                caselines = open(cr["cases"]).read().split("\n")
            case = json.loads(caselines[cid])
            sig = "fn|%s|%s" % (case["e"], ",".join(sorted(mine)))
            hit = [k for k in known if re.search(k["signature"], sig)]
            if hit:
                known_hits.append((hit[0], sig))
                continue
            path = V.save_replay(pid, {"property": pid, "level": "fn", "case": case, "signature": sig, "mismatch": m})
            violations.append((sig, path))
        for c in cr["crashes"]:
            sig = "fn|%s|crash" % c["case"].get("e")
            path = V.save_replay(pid, {"property": pid, "level": "fn", "case": c["case"], "signature": sig, "mismatch": {"crash": c["rc"]}})
            if "panic" in proj:
                violations.append((sig, path))
        with open(cr["trace"]) as f:
            for line in f:
                ev = json.loads(line)
                evals += 1
                if fn_nontrivial(pid, ev):
                    h = hashlib.sha256(json.dumps({k: v for k, v in ev.items() if k not in ("out", "id", "panic")}, sort_keys=True).encode()).hexdigest()
                    if h not in distinct and len(samples) < 3 and evals % 7 == 0:
                        samples.append(short(ev))
                    distinct.add(h)
    extra = []
    if extra_conn:
        extra = [conn_conformance(pid, tier, seed, kind, gen, "%s-%s-%d" % (pid, kind, i)) for i, (kind, gen) in enumerate(extra_conn)]
    cov = {
        "states": sum(r["distinct"] for r in mres) + sum(c["states"] for c in cres),
        "transitions": sum(r["states_generated"] for r in mres) + sum(c["events"] for c in cres),
        "traces_validated_against_impl": evals,
        "samples": samples or [short(json.loads(open(cres[0]["trace"]).readline()))],
        "evaluations": evals,
        "distinct_nontrivial": len(distinct),
        "rule": FN_RULES[pid],
        "exhaustive": False,
        "models": [{"name": r["name"], "cfg": r["cfg"], "distinct_states": r["distinct"], "states_generated": r["states_generated"],
                    "witnesses_reached": r["witnesses"], "reused_from_cache": r.get("cached", False)} for r in mres],
        "conformance": [{"generator": c["gen"], "cases": c["ncases"], "validated": c["events"], "mismatches": len(c["mismatches"]), "crashes": len(c["crashes"])} for c in cres],
        "out_of_projection": oop, "known_findings_hit": len(known_hits), "binding_selftest": selftest, "design_ref": design_ref,
    }
    V.write_evidence(pid, tier, seed, cov, time.time() - t0, len(violations), assumptions)
    for k, sig in known_hits[:10]:
        print("KNOWN-FINDING: property=%s %s [%s]" % (pid, k["text"], sig))
    if violations:
        shown = set()
        for sig, path in violations:
            if sig in shown or len(shown) >= 5:
                continue
            shown.add(sig)
            print("VIOLATION property=%s replay=%s" % (pid, path))
            V.log("  signature:", sig)
        return 1
    print("OK property=%s tier=%s evaluations=%d distinct_nontrivial=%d wall=%.0fs" % (pid, tier, evals, len(distinct), time.time() - t0))
    return 0

FN_ASSUME = [
    "TLC and the CommunityModules Json/IOUtils modules are correct",
    "the operators of HttpLex/HttpResp/OneShot/Router are the intended meaning (function transcription: TLA+ contributes the oracle, TLC its evaluation)",
    "code-level results hold for the enumerated/generated inputs only",
]
TABLE.update({
    "C05": lambda tier, seed: fn_property("C05", tier, seed, ["mc_resp"], ["C05"], FN_ASSUME, "DESIGN.md 6 C05"),
    "C14": lambda tier, seed: fn_property("C14", tier, seed, ["mc_fn_quick" if tier == "quick" else "mc_fn"], ["C14"], FN_ASSUME, "DESIGN.md 6 C14"),
    "C15": lambda tier, seed: fn_property("C15", tier, seed, ["mc_fn_quick" if tier == "quick" else "mc_fn"], ["C15"], FN_ASSUME, "DESIGN.md 6 C15"),
    "C16": lambda tier, seed: fn_property("C16", tier, seed, ["mc_fn_quick" if tier == "quick" else "mc_fn"], ["C16"], FN_ASSUME, "DESIGN.md 6 C16"),
    "C17": lambda tier, seed: fn_property("C17", tier, seed, ["mc_fn_quick" if tier == "quick" else "mc_fn"], ["C17"], FN_ASSUME, "DESIGN.md 6 C17"),
})

def run(pid, tier, seed):
    if pid not in TABLE:
        raise V.ToolError("no check for " + pid)
    return TABLE[pid](tier, seed)

def replay(path):
    d = json.load(open(path))
    pid = d["property"]
    if d["level"] == "model":
        print("model-level violation of %s in %s: see %s" % (d["violated"], d["model"], d["log"]))
        return 1
    if d["level"] == "conn":
        kind = d["build"]
        binpath = V.build_harness(kind)
        sp = os.path.join(V.WORK, "replay.scripts")
        s = dict(d["script"])
        s["run"] = 0
        open(sp, "w").write(json.dumps(s) + "\n")
        tr = os.path.join(V.WORK, "replay.trace")
        crashes, _ = exec_conn(binpath, sp, tr, 120)
        res = V.validate_trace("Trace_Conn.tla", TRACE_CFG % (1024 if kind == "full" else 32), tr, "replay", nshards=1)
        mism = [m for r in res for m in r["mismatches"]]
        for r in res:
            if r["error"]:
                print("TOOL-ERROR:", r["error"])
                return 2
        if mism or crashes:
            for m in mism[:3]:
                print("MISMATCH", json.dumps(short(m))[:3000])
            print("VIOLATION property=%s replay=%s" % (pid, path))
            return 1
        print("replay: no divergence (property %s holds on this input)" % pid)
        return 0
    if d["level"] == "fn":
        binpath = V.build_harness("full")
        cp = os.path.join(V.WORK, "replay.cases")
        c = dict(d["case"]); c["id"] = 0
        open(cp, "w").write(json.dumps(c) + "\n")
        tr = os.path.join(V.WORK, "replay.trace")
        with open(cp) as fin, open(tr, "w") as fout:
            pr = subprocess.run([binpath, "exec-fn"], stdin=fin, stdout=fout, timeout=120)
        if pr.returncode != 0:
            print("VIOLATION property=%s replay=%s" % (pid, path))
            return 1
        res = V.validate_trace("Trace_Fn.tla", FN_CFG, tr, "replay", nshards=1, boundary='"e":')
        mism = [m for r in res for m in r["mismatches"]]
        if mism:
            print("MISMATCH", json.dumps(short(mism[0]))[:3000])
            print("VIOLATION property=%s replay=%s" % (pid, path))
            return 1
        print("replay: no divergence (property %s holds on this input)" % pid)
        return 0
    if d["level"] == "srv":
        kind = d["build"]
        binpath = V.build_harness(kind)
        sp = os.path.join(V.WORK, "replay.steps.json")
        json.dump(d["steps"], open(sp, "w"))
        tr = os.path.join(V.WORK, "replay.trace")
        with open(tr, "w") as fout:
            subprocess.run([binpath, "srv-replay", sp, os.path.join(V.WORK, "sock")], stdout=fout, timeout=120)
        res = V.validate_trace("Trace_Srv.tla", srv_cfg(kind), tr, "replay", nshards=1, boundary='"e":"reset"')
        for r in res:
            if r["error"]:
                print("TOOL-ERROR:", r["error"])
                return 2
        mism = [m for r in res for m in r["mismatches"]]
        if mism:
            print("MISMATCH", json.dumps(short(mism[0]))[:3000])
            print("VIOLATION property=%s replay=%s" % (pid, path))
            return 1
        print("replay: no divergence (property %s holds on this history; note: kernel scheduling may differ between runs)" % pid)
        return 0
    raise V.ToolError("unknown replay level")
