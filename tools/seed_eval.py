#!/usr/bin/env python3
"""Seeded-change bookkeeping.

  seed_eval.py import <srcdir> <prop> <letter>   confirm a sub-agent's change in a fresh scratch worktree
                                                 (applies, compiles, existing suite passes, demo fails with it
                                                 and passes without it) and store it as /verif/seeded/<prop>-<letter>/
  seed_eval.py run <id> [check ...]              apply /verif/seeded/<id>/patch.diff to /repo, run the given checks
                                                 (default: the property it targets) quick, undo, record the outcome
  seed_eval.py table                             print which checks caught which seeded change
"""
import json, os, shutil, subprocess, sys, time

VERIF = os.path.dirname(os.path.dirname(os.path.abspath(__file__)))
SEEDED = os.path.join(VERIF, "seeded")
REPO = "/repo"

def sh(cmd, cwd=None, timeout=900):
    try:
        p = subprocess.run(cmd, shell=True, cwd=cwd, stdout=subprocess.PIPE, stderr=subprocess.STDOUT, timeout=timeout)
        return p.returncode, p.stdout.decode(errors="replace")
    except subprocess.TimeoutExpired as e:
        return 124, (e.stdout or b"").decode(errors="replace") + "\nTIMEOUT"

def do_import(src, prop, letter, store=None):
    sid = "%s-%s" % (prop, store or letter)
    diff = os.path.join(src, "mutation_%s.diff" % letter)
    demo = os.path.join(src, "tests", "demo_%s.rs" % letter)
    assert os.path.exists(diff) and os.path.exists(demo), (diff, demo)
    wt = "/tmp/sv-%s" % sid
    sh("git -C %s worktree remove --force %s" % (REPO, wt))
    rc, out = sh("git -C %s worktree add -q --detach %s HEAD" % (REPO, wt))
    assert rc == 0, out
    log = {}
    # a demonstration that acts between two sub-steps of one requests() call needs the at_event hook
    dflags = 'RUSTFLAGS="--cfg micro_http_verif" ' if "set_at_event" in open(demo).read() else ""
    log["demo_needs_hook_cfg"] = bool(dflags)
    try:
        os.makedirs(os.path.join(wt, "tests"), exist_ok=True)
        shutil.copy(demo, os.path.join(wt, "tests", "demo.rs"))
        rc, out = sh(dflags + "timeout 600 cargo test --offline --test demo 2>&1 | tail -15", cwd=wt)
        log["demo_without_change"] = "pass" if "test result: ok" in out and "FAILED" not in out else "FAIL"
        rc, out = sh("git apply %s" % diff, cwd=wt)
        assert rc == 0, "diff does not apply: " + out
        rc, out = sh("timeout 300 cargo build --offline 2>&1 | tail -3", cwd=wt)
        log["compiles"] = "error" not in out
        rc1, out1 = sh("timeout 600 cargo test --offline --lib 2>&1 | grep -E 'test result|FAILED|panicked' | head -5", cwd=wt, timeout=700)
        rc2, out2 = sh("timeout 600 cargo test --offline --doc 2>&1 | grep -E 'test result|FAILED' | head -5", cwd=wt, timeout=700)
        log["suite_with_change"] = (out1.strip() + " | " + out2.strip())
        log["suite_passes"] = ("62 passed; 0 failed" in out1) and ("14 passed; 0 failed" in out2)
        rc, out = sh(dflags + "timeout 600 cargo test --offline --test demo 2>&1", cwd=wt)
        log["demo_with_change"] = "FAIL" if (rc != 0 and ("FAILED" in out or "panicked" in out)) else "pass"
        log["demo_output"] = "\n".join(l for l in out.split("\n") if ("test result" in l or "panicked" in l))[:1500]
    finally:
        sh("git -C %s worktree remove --force %s" % (REPO, wt))
        shutil.rmtree(wt, ignore_errors=True)
    ok = log.get("demo_without_change") == "pass" and log.get("compiles") and log.get("suite_passes") and log.get("demo_with_change") == "FAIL"
    print(sid, "CONFIRMED" if ok else "REJECTED", json.dumps(log)[:600])
    if not ok:
        return 1
    d = os.path.join(SEEDED, sid)
    os.makedirs(d, exist_ok=True)
    shutil.copy(diff, os.path.join(d, "patch.diff"))
    shutil.copy(demo, os.path.join(d, "demo.rs"))
    meta = {"id": sid, "property": prop, "source": "independent sub-agent given only the property text and a scratch worktree",
            "confirmed": log, "confirmed_at": time.strftime("%Y-%m-%dT%H:%M:%S"),
            "what_ran": ["git worktree add /tmp/sv-%s" % sid, "cargo test --offline --test demo (unchanged tree): pass",
                         "git apply patch.diff; cargo build --offline; cargo test --offline --lib; cargo test --offline --doc: 62 + 14 pass",
                         "cargo test --offline --test demo (changed tree): fails"],
            "needs_to_manifest": "", "checks": {}}
    mp = os.path.join(d, "meta.json")
    if os.path.exists(mp):
        old = json.load(open(mp))
        meta["needs_to_manifest"] = old.get("needs_to_manifest", "")
        meta["checks"] = old.get("checks", {})
    json.dump(meta, open(mp, "w"), indent=1)
    return 0

def do_run(sid, checks):
    d = os.path.join(SEEDED, sid)
    meta = json.load(open(os.path.join(d, "meta.json")))
    if not checks:
        checks = [meta["property"]]
    rc, out = sh("git -C %s status --porcelain -- src build.rs" % REPO)
    assert out.strip() == "", "/repo is not clean: " + out
    rc, out = sh("git -C %s apply %s" % (REPO, os.path.join(d, "patch.diff")))
    assert rc == 0, out
    try:
        for c in checks:
            t0 = time.time()
            rc, out = sh("./check %s quick" % c, cwd=VERIF, timeout=3600)
            viol = [l for l in out.split("\n") if l.startswith("VIOLATION")]
            sigs = [l.split("signature:")[1].strip() for l in out.split("\n") if "signature:" in l]
            res = {"exit": rc, "caught": rc == 1 and bool(viol), "signatures": sigs[:5], "wall_s": round(time.time() - t0), "tail": out.strip().split("\n")[-3:]}
            meta["checks"][c] = res
            print(sid, c, "CAUGHT" if res["caught"] else ("missed" if rc == 0 else "exit %d" % rc), sigs[:2], flush=True)
    finally:
        sh("git -C %s checkout -- ." % REPO)
        json.dump(meta, open(os.path.join(d, "meta.json"), "w"), indent=1)

def do_table():
    rows = []
    for sid in sorted(os.listdir(SEEDED)):
        mp = os.path.join(SEEDED, sid, "meta.json")
        if not os.path.exists(mp):
            continue
        m = json.load(open(mp))
        caught = [c for c, r in m["checks"].items() if r.get("caught")]
        missed = [c for c, r in m["checks"].items() if not r.get("caught")]
        rows.append((sid, m["property"], ",".join(caught) or "-", ",".join(missed) or "-"))
    for r in rows:
        print("%-8s target=%-4s caught_by=%-20s not_caught_by=%s" % r)

if __name__ == "__main__":
    cmd = sys.argv[1]
    if cmd == "import":
        sys.exit(do_import(sys.argv[2], sys.argv[3], sys.argv[4], sys.argv[5] if len(sys.argv) > 5 else None))
    elif cmd == "run":
        do_run(sys.argv[2], sys.argv[3:])
    elif cmd == "table":
        do_table()
