#!/usr/bin/env python3
"""False-alarm evaluation: runs EVERY check (quick) against a behaviour-preserving refactoring of
micro-http that lives in a scratch worktree (never /repo), with scratch work/evidence/replay dirs
(env overrides of tools/vcheck.py).  Any check that does not exit 0 here is a false alarm of the
machinery (or the refactoring is not behaviour-preserving -- decide by reading the replay).
Usage: rf_eval.py <name> <worktree>|--from-diff [check ...]   ->  /verif/refactors/<name>/result.json"""
import json, os, shutil, subprocess, sys, time

VERIF = os.path.dirname(os.path.dirname(os.path.abspath(__file__)))
ALL = ["C%02d" % i for i in range(1, 19)]

def main():
    name, wt = sys.argv[1], sys.argv[2]
    checks = sys.argv[3:] or ALL
    made = False
    if wt == "--from-diff":
        # re-evaluation: a fresh scratch worktree with the stored refactoring applied
        wt = "/tmp/rf-" + name
        subprocess.run("git -C /repo worktree remove --force %s" % wt, shell=True, stdout=subprocess.DEVNULL, stderr=subprocess.DEVNULL)
        subprocess.run("git -C /repo worktree add -q --detach %s HEAD" % wt, shell=True, check=True)
        subprocess.run("git apply %s" % os.path.join(VERIF, "refactors", name, "refactor.diff"), shell=True, cwd=wt, check=True)
        made = True
    d = os.path.join(VERIF, "refactors", name)
    os.makedirs(d, exist_ok=True)
    wk = "/tmp/rfw-" + name
    shutil.rmtree(wk, ignore_errors=True)
    env = dict(os.environ, VERIF_REPO=wt, VERIF_WORK=wk, VERIF_EVID=os.path.join(wk, "evidence"), VERIF_REPLAY=os.path.join(wk, "replay"))
    rp = os.path.join(d, "result.json")
    out = json.load(open(rp)) if os.path.exists(rp) else {}
    try:
        for c in checks:
            t0 = time.time()
            try:
                p = subprocess.run(["./check", c, "quick"], cwd=VERIF, env=env, stdout=subprocess.PIPE, stderr=subprocess.STDOUT, timeout=3600)
                txt, rc = p.stdout.decode(errors="replace"), p.returncode
            except subprocess.TimeoutExpired:
                txt, rc = "TIMEOUT", 124
            sigs = [l.split("signature:")[1].strip() for l in txt.split("\n") if "signature:" in l]
            out[c] = {"exit": rc, "signatures": sigs[:5], "wall_s": round(time.time() - t0)}
            if rc != 0:
                open(os.path.join(d, "%s.out" % c), "w").write(txt[-20000:])
            print(name, c, "ok" if rc == 0 else "ALARM exit %d" % rc, sigs[:2], flush=True)
    finally:
        json.dump(out, open(rp, "w"), indent=1)
        if all(v["exit"] == 0 for v in out.values()):
            shutil.rmtree(wk, ignore_errors=True)
        if made:
            subprocess.run("git -C /repo worktree remove --force %s" % wt, shell=True, stdout=subprocess.DEVNULL, stderr=subprocess.DEVNULL)
            shutil.rmtree(wt, ignore_errors=True)

if __name__ == "__main__":
    main()
